#!/bin/bash
# collect_seed.sh <PROP> <name>: copy the uncommitted change + demo of /tmp/wt_<PROP> into /verif/seeded/<name>/
set -e
P=$1; N=$2; W=/tmp/wt_$P; D=/verif/seeded/$N
mkdir -p $D
git -C $W diff > $D/patch.diff
cp $W/demo.py $D/demo.py 2>/dev/null || true
echo "collected $(wc -l < $D/patch.diff) diff lines into $D"
