#!/usr/bin/env python3
"""Regenerates the table of DESIGN.md section 10 from seeded/*/meta.json."""
import glob
import json
import re
from pathlib import Path

V = Path(__file__).resolve().parent.parent
rows = ["| seeded change | property | change | needs, to manifest | caught by (quick tier) |", "|---|---|---|---|---|"]
for f in sorted(glob.glob(str(V / "seeded/*/meta.json"))):
    m = json.load(open(f))
    esc = lambda t: (t or "").replace("|", "\\|").replace("\n", " ")
    rows.append(f"| `{Path(f).parent.name}` | {m.get('property')} | {esc(m.get('change'))} | {esc(m.get('needs_to_manifest'))} | {', '.join(m.get('caught_by') or []) or 'not caught'} |")
p = V / "DESIGN.md"
s = p.read_text()
a = s.index("| seeded change | property |")
b = s.index("\n\n", a)
p.write_text(s[:a] + "\n".join(rows) + s[b:])
print(len(rows) - 2, "seeded changes")
