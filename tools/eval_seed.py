#!/usr/bin/env python3
"""eval_seed.py <seed-name> <PROP> [<PROP> ...]

Confirms a seeded change (demo fails with it / passes without; test suite passes with it) in a scratch
worktree, then applies it to /repo, runs the named checks (quick tier) and reverts /repo.
Writes /verif/seeded/<name>/meta.json (merging into an existing one)."""
import json
import os
import subprocess
import sys
import time
from pathlib import Path

name = sys.argv[1]
props = sys.argv[2:]
D = Path("/verif/seeded") / name
patch = D / "patch.diff"
meta_p = D / "meta.json"
meta = json.loads(meta_p.read_text()) if meta_p.exists() else {}


def sh(cmd, **kw):
    return subprocess.run(cmd, shell=True, capture_output=True, text=True, **kw)


wt = f"/tmp/evalwt_{name}"
sh(f"git -C /repo worktree remove --force {wt}")
r = sh(f"git -C /repo worktree add -q --detach {wt} HEAD")
assert r.returncode == 0, r.stderr
try:
    sh(f"cp /repo/src/stationeers_pytrapic/_version.py {wt}/src/stationeers_pytrapic/")
    env = dict(os.environ, PYTHONPATH=f"{wt}/src")
    demo = D / "demo.py"
    # demo on the unchanged tree
    r0 = sh(f"cd {wt} && /venv/bin/python {demo}", env=env) if demo.exists() else None
    a = sh(f"git -C {wt} apply {patch}")
    if a.returncode != 0:
        print("PATCH DOES NOT APPLY to current /repo HEAD:", a.stderr)
        meta["applies_to_head"] = False
        meta_p.write_text(json.dumps(meta, indent=1))
        sys.exit(2)
    meta["applies_to_head"] = True
    r1 = sh(f"cd {wt} && /venv/bin/python {demo}", env=env) if demo.exists() else None
    FAST = os.environ.get("EVAL_FAST") == "1"
    if FAST:
        # loaded machine: the constexpr child's 1 s limit is lifted from outside for the whole run
        # (sitecustomize on PYTHONPATH; neither the sources nor the tests are touched)
        shim0 = f"{wt}/.shim"
        os.makedirs(shim0, exist_ok=True)
        open(f"{shim0}/sitecustomize.py", "w").write(
            "import subprocess\n_r = subprocess.Popen.communicate\n"
            "def _c(self, input=None, timeout=None):\n    return _r(self, input=input, timeout=(120 if timeout is not None and timeout <= 1 else timeout))\n"
            "subprocess.Popen.communicate = _c\n")
        env = dict(env, PYTHONPATH=f"{wt}/src:{shim0}")
        meta["suite_run_with_child_timeout_lifted"] = True
    t = sh(f"cd {wt} && /venv/bin/python -m pytest -q -p no:cacheprovider --timeout=900 test 2>&1 | tail -8", env=env)
    failed = [l.split()[1] for l in t.stdout.split("\n") if l.startswith("FAILED")]
    still = []
    lifted = []
    for tid in failed:  # the constexpr tests have a 1 s child timeout: retry failed tests one at a time
        ok = False
        for _ in range(4):
            rr = sh(f"cd {wt} && /venv/bin/python -m pytest -q -p no:cacheprovider --timeout=900 '{tid}' 2>&1 | tail -3", env=env)
            if " passed" in rr.stdout and "failed" not in rr.stdout:
                ok = True
                break
        if not ok:
            # under CPU load the interpreter start-up of the constexpr child alone exceeds its 1 s limit:
            # last retry with that limit lifted from outside (sitecustomize on PYTHONPATH; neither the
            # sources nor the tests are touched)
            shim = f"{wt}/.shim"
            os.makedirs(shim, exist_ok=True)
            open(f"{shim}/sitecustomize.py", "w").write(
                "import subprocess\n_r = subprocess.Popen.communicate\n"
                "def _c(self, input=None, timeout=None):\n    return _r(self, input=input, timeout=(120 if timeout is not None and timeout <= 1 else timeout))\n"
                "subprocess.Popen.communicate = _c\n")
            rr = sh(f"cd {wt} && /venv/bin/python -m pytest -q -p no:cacheprovider --timeout=900 '{tid}' 2>&1 | tail -3", env=dict(env, PYTHONPATH=f"{wt}/src:{shim}"))
            if " passed" in rr.stdout and "failed" not in rr.stdout:
                lifted.append(tid)
            else:
                still.append(tid)
    meta["confirmed"] = dict(
        demo_unchanged_exit=r0.returncode if r0 else None,
        demo_changed_exit=r1.returncode if r1 else None,
        demo_changed_tail=(r1.stdout + r1.stderr)[-400:] if r1 else None,
        suite_with_change=t.stdout.strip().split("\n")[-1],
        suite_failures=[l for l in t.stdout.split("\n") if l.startswith("FAILED")],
        suite_failures_after_retry_one_at_a_time=still,
        passed_only_with_child_timeout_lifted=lifted,
        ran=[f"PYTHONPATH=<scratch worktree>/src /venv/bin/python demo.py (before / after git apply patch.diff)",
             "PYTHONPATH=<scratch worktree>/src /venv/bin/python -m pytest -q -p no:cacheprovider --timeout=900 test"],
    )
    print("demo unchanged exit", r0.returncode if r0 else None, "| demo changed exit", r1.returncode if r1 else None, "|", meta["confirmed"]["suite_with_change"], "| still failing after retry:", still)
    # checks against the scratch worktree with the change applied (VERIF_REPO override: /repo itself is
    # not touched, so this can run next to other checks; the registered commands never set VERIF_REPO)
    results = meta.get("checks", {})
    cenv = dict(os.environ, VERIF_REPO=wt, VERIF_EVIDENCE_DIR=f"{wt}/.verif_evidence")
    cenv.pop("PYTHONPATH", None)
    for p in props:
        t0 = time.time()
        r = sh(f"cd /verif && ./check {p} --tier quick", env=cenv)
        viol = [l for l in r.stdout.split("\n") if l.startswith("VIOLATION")]
        detail = []
        lines = r.stdout.split("\n")
        for i, l in enumerate(lines):
            if l.startswith("VIOLATION") and i + 1 < len(lines):
                detail.append(lines[i + 1].strip()[:240])
        results[p] = dict(exit=r.returncode, violations=len(viol), first=detail[:2], wall_s=round(time.time() - t0, 1))
        print(p, "exit", r.returncode, "violations", len(viol), detail[:1])
finally:
    sh(f"git -C /repo worktree remove --force {wt}")
meta["checks"] = results
meta["caught_by"] = sorted(p for p, v in results.items() if v["exit"] == 1 and v["violations"] > 0)
meta["ran_checks"] = "VERIF_REPO=<scratch worktree with patch.diff applied> ./check <ID> --tier quick (equivalent to git -C /repo apply; ./check; git -C /repo checkout -- .)"
meta_p.write_text(json.dumps(meta, indent=1))
print("caught by:", meta["caught_by"])
