import json
from pathlib import Path
V = Path('/verif')
CHECKS = {
 "C01": dict(level="translation_validation", design="DESIGN.md 4 C01, 2.2",
   text="For every program of a bounded, seeded family (plus every source under test/ and examples/) the real compile_code output is executed on a symbolic IC10 machine against a reference interpreter of the dialect; z3 decides for every explored path pair whether the effect traces can differ for any device input; counterexamples are replayed concretely. Programs are enumerated, inputs are solver-quantified within step/effect/path bounds.",
   note="Trusted: IC10 semantics table and loader written for this project, dialect interpreter (README semantics), real-arithmetic abstraction of doubles with concrete replay, environment model (reads fixed between effects). Known-miscompiled constructs are gated out of the family and kept as witnesses (known_findings.json).",
   technique="symbolic execution of emitted IC10 + source, z3 trace-equivalence per path, concrete replay"),
 "C04": dict(level="exploration", design="DESIGN.md 4 C04",
   text="Lock-step of the virtual-register instruction list (captured at the real assign_registers call) and the allocated listing on the symbolic IC10 machine: at every register read of every explored path z3 decides whether the physical register can hold a value different from the one last written to the same virtual register. Register-pressure family: k simultaneously live values, k>16 must be rejected, only r0-r15 may appear; lifetime probes; recursive programs must be rejected (static register frames).",
   note="Trusted: IC10 machine semantics; the harness-side wrapper around assign_registers (the real function runs unchanged). Programs enumerated (seeded generator x option vectors, repository sources, pressure family); inputs solver-quantified within bounds.",
   technique="symbolic lock-step execution with z3 equality queries per register read, concrete replay"),
 "C06": dict(level="exploration", design="DESIGN.md 4 C06",
   text="Symbolic IC10 machine with a shadow call stack: at every `j ra` of every explored path the target must be the pending return address and sp must equal its value at the call (push/pop convention adjusted); the same call-graph programs are compared with the dialect interpreter under 8 calling-convention vectors; recursive programs must be rejected.",
   note="Trusted: IC10 machine, dialect interpreter, function table captured from the compiler (arity, has-return). Call graphs enumerated (6 fixed incl. function names that are suffixes / prefixes of each other + seeded), inputs solver-quantified.",
   technique="symbolic execution with shadow-stack monitor + z3 trace equivalence, concrete replay"),
 "C07": dict(level="exploration", design="DESIGN.md 4 C07",
   text="Symbolic IC10 machine with region monitor (owner function of every line from the compiler's instruction list): on every explored path control may enter a function region only by a call / tail call to its first line or by a return. The main->first-function fall-through of the pinned tree is a known finding keyed by mechanism; any other crossing is a violation, and so is a fall-through into a function that no executed call reaches (constant tests incl. falsy named constants, dead statements).",
   note="Trusted: region alignment from the captured instruction list; IC10 machine. Programs enumerated, inputs solver-quantified.",
   technique="symbolic execution with region monitor, z3 path feasibility, concrete replay"),
 "C02": dict(level="translation_validation", design="DESIGN.md 4 C02",
   text="Each program is compiled under all 32 vectors of the five semantic options; outputs are reduced to a label-free canonical form; one representative per distinct canonical program is compared with the default vector's output on the symbolic IC10 machine (z3 decides trace equality for all inputs per path, counterexamples replayed). Comment/version options and the '# pytrapic:' route are compared on the canonical form / text.",
   note="Trusted: loader + canonical form, IC10 machine, real-arithmetic abstraction with concrete replay. Programs enumerated; inputs solver-quantified within bounds.",
   technique="canonical-form grouping + symbolic IC10-vs-IC10 trace equivalence with z3, concrete replay"),
 "C03": dict(level="proof", design="DESIGN.md 4 C03, 2.3", engine="E2",
   text="Set A: every entry of the real operator tables is executed on symbolic operands (z3 Float64 / signed 64-bit) through an instrumented copy of utils.py; per path z3 proves fold == IC10 semantics of the emitted opcode for all operand values in the stated range (bounded only by operand width; no sampling). Set B: constant-propagation shapes are checked by IC10-vs-IC10 equivalence of a folded program and its twin with operands loaded from the stack. Set C: names bound once by a constant that are not constants (parameters, re-bindings) compared source vs emitted code.",
   note="Trusted: Python float/int semantics of the proxies, IC10 oracle semantics, uninterpreted pow/fmod shared by both sides, z3. Proof level refers to Set A (all values); Set B enumerates shapes.",
   technique="symbolic execution of the real fold lambdas into QF_BVFP, z3 validity per path, replay on the real table"),
 "C05": dict(level="exploration", design="DESIGN.md 4 C05",
   text="Per program and option vector: labelled output loads (each referenced label defined once), numeric targets of the de-labelled output in range, and the label-free canonical forms of both are identical (line-for-line statement); on mismatch z3 trace equivalence shows the behavioural difference. The construct a jump was generated for is decided semantically: break / continue in nested loops of every mix, early returns, compared with the source on the symbolic machine with labels kept and removed. Identifier quantifier: adversarial name pool instantiated in templates (enumerated) plus the real remove_labels executed on symbolic label names (E3).",
   note="Label names of 1..3 (thorough 4) symbolic characters over a 4-letter alphabet are solver-quantified; longer names are enumerated from the pool. Trusted: loader and canonical form, ReProxy (the one regex shape).",
   technique="closed canonical-form comparison of real outputs; z3 IC10-vs-IC10 equivalence on mismatch"),
 "C08": dict(level="exploration", design="DESIGN.md 4 C08",
   text="Verbose and compact outputs of the same source are loaded (independent CRC-32, STR packing, statically extracted enum tables) and must be the same canonical instruction sequence; E2 part: calc_hash / compute_string / _apply_output_mode executed on symbolic arguments.",
   note="Enum name->number is taken from the repository's tables (C16 checks their consistency); where the repository documents a member's number (instruction documentation in the intrinsic wrappers) the table must agree, other members have no second source in the repository.",
   technique="closed canonical comparison via independent loader + symbolic execution of the numeric kernels with z3"),
 "C09": dict(level="exploration", design="DESIGN.md 4 C09",
   text="Every output of every family under rotating/all option vectors is parsed against an IC10 signature table written for this project (cross-checked with webapp/src/ic10.json); placeholders and Python spellings are rejected; version-note line <= 90. E2 part: IC10Operand/format_int/version-note arithmetic on symbolic values.",
   note="Grammar table is the trusted base; scientific notation treated as unloadable.",
   technique="grammar-table loading of real outputs + symbolic execution of the formatter kernels with z3"),
 "C12": dict(level="translation_validation", design="DESIGN.md 4 C12",
   text="Seeded constexpr programs (bit-field, arithmetic, HASH, branch, chained bodies; call positions in main, expressions, arguments, function bodies, library modules): the real output is compared on the symbolic IC10 machine with the dialect interpreter, in which the decorated function is ordinary Python evaluation; no label/instruction may be owned by a decorated function; open/eval/exec bodies (direct and indirect uses) must be rejected; fixed families: HASH() in a constexpr body on 20 unusual legal strings, 11 argument/result kinds crossing the process boundary, edit sequences compiled in one process.",
   note="Only device inputs are solver-quantified; constexpr bodies, argument literals and call positions are enumerated. Child-process timeouts are retried, then inconclusive.",
   technique="symbolic IC10 machine vs interpreter (z3 trace equivalence), concrete replay"),
 "C13": dict(level="translation_validation", design="DESIGN.md 4 C13",
   text="Multi-module programs (1-3 seeded library modules with equal global/function names, aliases, __main__ blocks, uncalled functions) are compared, IC10 vs IC10 on the symbolic machine, with the single file obtained mechanically by prefixing every library-level name; the multi-module output is also compared with the dialect interpreter.",
   note="Module splits enumerated; inputs solver-quantified. Labels kept (label removal with equal names across modules is the C05 finding).",
   technique="symbolic IC10-vs-IC10 and source-vs-IC10 trace equivalence with z3, concrete replay"),
 "C15": dict(level="exploration", design="DESIGN.md 4 C15, 2.4", engine="E3",
   text="The real compile_code (instrumented copy, Compiler stubbed) is executed on source strings whose blanks, junk, separators, '-'/'_' spellings and line-boundary look-alikes are symbolic characters over stated alphabets; every feasible path of the scanner is explored with z3 deciding branch feasibility, every string class is compared with a specification written from the property text, and mismatches are replayed on the real compile_code. Multi-line families (the same option on three / five lines with symbolic polarity, repeated identical lines), first / last / 71st line, options as object or dict, library-module directives that must be ignored.",
   note="Bounded: templates with <= 6 symbolic characters, lengths concrete; spellings on which the property text is silent are skipped. Trusted: SymStr string semantics, the specification.",
   technique="symbolic execution of the real directive scanner over symbolic-character strings, z3 path feasibility, replay"),
 "C16": dict(level="other", design="DESIGN.md 4 C16",
   text="Closed obligations per table row discharged by z3 (bit-vector CRC-32 of each prefab name == stored hash; Distinct over each enum) and by direct comparison on the real objects (plural/singular, all four batch-method accessors of every plural class unnamed and named, slot aliases, intrinsic wrappers called with sentinels and compiled in value and statement form, enum numbers given in the wrappers' instruction documentation vs the table). Exhaustive over all rows; there is no symbolic input.",
   note="Instruction signatures (destination register or not) from the table of vf/ic10.py.",
   technique="closed z3 bit-vector / Distinct obligations over every table row"),
 "C17": dict(level="proof", design="DESIGN.md 4 C17", engine="E2",
   text="The three statistics assignments of get_code are extracted from the AST and executed on an abstract text (L lines, T characters, R registers symbolic); z3 (LIA) proves num_lines == L, num_bytes == T + 2*max(L-1,0), num_registers == R for all L,T,R or returns the counterexample (L = 0). Every real output of the families is additionally recounted.",
   note="Abstract text model: non-empty lines without line breaks joined by one newline.",
   technique="symbolic execution of the real statistics statements into linear integer arithmetic, z3 validity"),
 "C18": dict(level="model_checking", design="DESIGN.md 4 C18", engine="E2",
   text="The real encode_data/decode_data statements run with base64/zlib/json replaced by contract stubs; the base64 text is a SymStr with symbolic alphabet characters; for each compressed length m (quick 1..96 and 1000, thorough 1..400 and up to 8191) z3 proves position by position that every emitted character is URL-safe and that the text reaching b64decode equals what b64encode produced (one path covers all 64^k texts); the size of the JSON document is a symbolic integer, so a size limit on the inflated text (decompressobj max_length) is a path whose model is replayed with a document of that size; padding arithmetic proved for all m in LIA; concrete dictionaries (up to 150 kB) replay the contracts.",
   note="Library contracts are the trusted base (listed in evidence).",
   technique="symbolic execution with contract stubs over symbolic base64 characters, z3 validity per length"),
}
NA = {
 "C10": "quantifies over arbitrary texts (C parser boundary), wall-clock time and OS child processes; no SMT-encodable assertion over the code within reach (DESIGN.md 5)",
 "C11": "quantifies over request histories of one process; the state involved lives in objects reachable only by running the real compiler, which cannot be executed symbolically (DESIGN.md 5)",
 "C14": "process-level I/O over line histories of a daemon; not an SMT assertion over the code; CrossHair replaces print, the very observable (DESIGN.md 5)",
}
ALL = [f"C{i:02d}" for i in range(1,19)]
import sys
extra = json.loads(Path('/verif/tools/none.json').read_text()) if Path('/verif/tools/none.json').exists() else {}
CHECKS.update(extra.get('checks',{}))
NA.update(extra.get('na',{}))
checks=[]
for pid in ALL:
    if pid in CHECKS:
        c=CHECKS[pid]
        checks.append(dict(property_id=pid, quick_cmd=f"./check {pid} --tier quick", thorough_cmd=f"./check {pid} --tier thorough",
            evidence_file=f"/verif/evidence/{pid}.json", replay_cmd_template=f"./check {pid} --replay {{path}}", engine=c.get('engine','E1'),
            level_claimed=dict(category=c['level'], text=c['text'], design_ref=c['design']), level_note=c['note'], technique=c['technique']))
na=[dict(property_id=p, reason=NA.get(p,"check not built yet in this session; see DESIGN.md")) for p in ALL if p not in CHECKS]
m=dict(version=1, setup_cmd="./setup.sh",
  hooks=dict(guard="PYTRAPIC_VERIF", enable="no source hooks: the harness wraps stationeers_pytrapic.generate_code.assign_registers at run time (vf/comp.py); PYTRAPIC_VERIF=1 is exported by ./check for future hooks",
             baseline_off_cmd="cd /repo && /venv/bin/python -m pytest -ra -q -p no:cacheprovider --timeout=900 --continue-on-collection-errors", source_commits=[], add_only=True),
  engines=[dict(name="E1", path="vf/ic10.py vf/source.py vf/equiv.py vf/e1.py", serves_properties=["C01","C02","C04","C05","C06","C07","C08","C09","C12","C13"], kind_free_text="symbolic IC10 machine + dialect interpreter, z3 path exploration and trace equivalence"),
           dict(name="E2", path="vf/e2.py", serves_properties=["C03","C08","C09","C17","C18"], kind_free_text="symbolic execution of the real numeric kernels (operator overloading + AST rewriting of builtins) into z3 FP64/Int/BV"),
           dict(name="E3", path="vf/e3.py", serves_properties=["C05","C15"], kind_free_text="symbolic strings (lists of z3 code points) through the real string-processing statements")],
  checks=checks, not_applicable=na,
  notes="All checks run inside the overlay venv /verif/.venv built by setup.sh from /venv + the offline wheelhouse (z3-solver). Every check re-reads /repo's current working tree.")
Path('/verif/MANIFEST.json').write_text(json.dumps(m, indent=1)+"\n")
import jsonschema
jsonschema.validate(m, json.loads(Path('/root/.vp/MANIFEST.schema.json').read_text()))
for pid in CHECKS:
    p=V/'evidence'/f'{pid}.json'
    if p.exists():
        jsonschema.validate(json.loads(p.read_text()), json.loads(Path('/root/.vp/EVIDENCE.schema.json').read_text()))
        print(pid,'evidence valid')
print('manifest ok', len(checks), 'checks', len(na), 'n/a')
