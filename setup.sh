#!/bin/bash
# Builds the overlay virtualenv /verif/.venv (python 3.12 of the repository + z3-solver from the
# offline wheelhouse).  Idempotent; safe to call from every check.
set -e
cd "$(dirname "$0")"
V=.venv
if [ ! -x "$V/bin/python" ] || ! "$V/bin/python" -c "import z3, astroid, jsonschema" >/dev/null 2>&1; then
  rm -rf "$V"
  /venv/bin/python -m venv "$V"
  echo "import site; site.addsitedir('/venv/lib/python3.12/site-packages')" \
    > "$V/lib/python3.12/site-packages/_overlay.pth"
  PIP_NO_INDEX=1 "$V/bin/pip" install -q --no-index --find-links /opt/veriftools/wheels \
    z3-solver jsonschema >/dev/null
fi
"$V/bin/python" -c "import z3, astroid, stationeers_pytrapic"
mkdir -p evidence replays .work
