"""Seeded generator of programs of the PyTrapIC dialect (the enumerated "programs" dimension).

Grammar (all variables numeric):
  expr  := const | var | read | expr binop expr | -expr | cmp | cmp (and|or) cmp | not cmp
           | expr if cmp else expr | mathfn(expr) | intrinsic(expr..) | clist[idx] | call
  read  := dN.L | Xs.L.M | Xs["n"].L.M | Xs.M.L | X(dN).L | X(dN).Slot.S | stack[k] | Stack(dN)[k]
  stmt  := var = expr | var op= expr | sink = expr | if/elif/else | while cmp | for range | for list
           | break | continue | call | return expr | yield_() | sleep(c)

Constructs known to be miscompiled on the pinned tree are *gated* (never emitted unless the
corresponding gate is switched off); each gate has a fixed witness program in vf/witness.py.
"""
from __future__ import annotations

import random
import re
from dataclasses import dataclass, field

_READ_RE = re.compile(r"[A-Za-z_\]\)]\.[A-Za-z]|stack\[|Stack\(")

GATES = {
    "for_target_reuse": "a `for` target that is assigned elsewhere in the same scope reads a stale register",
    "name_alias": "`y = x` aliases y to x's register although x is overwritten later",
    "jump_table": "constant list with >= 6 entries and a dynamic index: select operands swapped inside each pair",
    "ref_id_register": "a register-held reference id captured by Stack(ref_id=v)/X(ref_id=v) is clobbered",
    "loop_bound_mutation": "range() bound held in a variable that the loop body modifies (Python evaluates range once)",
    "for_target_mutation": "assignment to the for target inside the body changes the iteration",
    "const_bool_ops": "and/or/not/~ on constants fold with Python value semantics (C03)",
    "neg_mod": "modulus by a negative constant (IC10 mod differs from Python %)",
    "break_nested": "`break` that is not `if t: break` directly in the loop body: the jump is emitted at the enclosing statement",
    "break_in_forlist": "break/continue inside a for-over-list loop emits `j None`",
    "list1_dynamic": "one-element constant list with a dynamic index assigned to a variable leaves the register unset",
    "forlist_nested": "for-over-list inside the body of another for-over-list: inner jal overwrites ra",
    "forlist_call": "call of a non-inlined function inside a for-over-list body: jal overwrites the body's return address",
    "tail_call_other_calls": "tail_call_optimization on a function whose last statement is a call and that also contains other calls or returns: ra is not saved / the end label has no `j ra`",
    "inline_arg_alias": "inlined call whose argument is a bare variable that the callee modifies through `global`: the parameter is aliased to the variable's register",
    "const_test": "if/while test that folds to a constant while its body contains break",
    "for_var_after_loop": "the target of a for-range loop read after the loop (holds the first value past the range); never generated",
    "chained_comparison": "chained comparison `a < b < c` (only the first comparison is compiled); never generated",
}

LOGIC_RW = ["Setting", "On", "Mode", "Open", "Lock", "Activate"]
LOGIC_R = ["Setting", "On", "Pressure", "Temperature", "Ratio", "Charge", "Vertical", "Horizontal", "Power", "Quantity"]
BATCH = ["Average", "Sum", "Minimum", "Maximum"]
# (singular class, plural singleton, readable logic types, writable logic types, slots)
STRUCTS = [
    ("Battery", "Batteries", ["Charge", "Ratio", "Power", "On"], ["On", "Lock"], []),
    ("GrowLight", "GrowLights", ["On", "Power"], ["On", "Lock"], []),
    ("ArcFurnace", "ArcFurnaces", ["Activate", "Error", "On"], ["Activate", "On"], [("Import", ["Occupied", "Quantity"]), ("slot1", ["Occupied", "OccupantHash"])]),
    ("WallHeater", "WallHeaters", ["On", "Power", "Error"], ["On", "Lock"], []),
    ("SolarPanel", "SolarPanels", ["Horizontal", "Vertical", "Charge"], ["Horizontal", "Vertical"], []),
    ("GasSensor", "GasSensors", ["Pressure", "Temperature", "RatioOxygen"], [], []),
    ("ConsoleLED5", "ConsoleLED5s", ["Setting", "On", "Mode"], ["Setting", "On", "Mode"], []),
    ("ActiveVent", "ActiveVents", ["On", "Mode", "PressureExternal"], ["On", "Mode", "Lock"], []),
    ("DaylightSensor", "DaylightSensors", ["Vertical", "Horizontal", "Mode"], ["Mode"], []),
    ("LogicMemory", "LogicMemories", ["Setting"], ["Setting"], []),
]
NAMES = ["In", "Out", "Bank1", "Main", "A b"]
CMP = ["<", "<=", ">", ">=", "==", "!="]
# literals: integers and dyadic fractions so that every compile-time combination prints exactly
CONSTS = [0, 1, 2, 3, 4, 5, 7, 8, 10, 16, 100, 0.5, 0.25, 1.5, 2.5, 0.125, -1, -2, -0.5, 273, 1000]


@dataclass
class Cfg:
    max_depth: int = 3
    n_funcs: tuple = (0, 3)
    n_main_stmts: tuple = (2, 5)
    main_loop: float = 0.5  # probability of a `while True:` main loop
    gates_off: frozenset = frozenset()  # gates switched off (construct allowed)
    call_heavy: bool = False
    pressure: bool = False
    own_stack: bool = True
    intrinsics: bool = True
    math: bool = True
    lists: bool = True
    named_consts: bool = True
    allow_global_stmt: bool = True
    multiline: float = 0.2  # probability of wrapping a parenthesised expression over two lines


class Scope:
    def __init__(self, g, is_func=False, params=()):
        self.vars = list(params)  # readable numeric variables
        self.assigned = set(params)
        self.for_targets = set()
        self.is_func = is_func
        self.globals_declared = set()
        self.loop_depth = 0
        self.in_for = 0
        self.in_forlist = 0  # innermost enclosing loop is a for-over-list
        self.forlist_depth = 0  # anywhere inside a for-over-list body
        self.frozen = set()  # names that must not be assigned (for targets, loop bounds)


class Gen:
    def __init__(self, seed: int, cfg: Cfg | None = None):
        self.r = random.Random(seed)
        self.cfg = cfg or Cfg()
        self.lines: list[str] = []
        self.funcs: list[tuple[str, int, bool]] = []  # name, nargs, has_ret
        self.counter = 0
        self.global_vars: list[str] = []
        self.devs: list[tuple[str, str | None, tuple]] = []  # (varname, cls, struct)
        self.batches: list[tuple[str, tuple]] = []
        self.features: set[str] = set()
        self.cur_func = None
        self.constish_vars: set[str] = set()
        self.nonconst_vars: set[str] = set()
        self.late_funcs: list = []
        self.global_writers: set[str] = set()  # functions with a `global` statement  # callable only from top-level code (library functions)

    def gate(self, g):
        return g in self.cfg.gates_off

    def fresh(self, p="v"):
        self.counter += 1
        return f"{p}{self.counter}"

    # ---- expressions ---------------------------------------------------------------------------
    def const(self):
        return repr(self.r.choice(CONSTS))

    def read(self, sc):
        r = self.r
        k = r.random()
        if k < 0.3:
            self.features.add("pin_read")
            return f"d{r.randrange(6)}.{r.choice(LOGIC_R)}"
        if k < 0.4:
            self.features.add("db_read")
            return f"db.{r.choice(LOGIC_RW)}"
        if k < 0.55 and self.devs:
            v, cls, st = r.choice(self.devs)
            if st[4] and r.random() < 0.4:
                slot, sts = r.choice(st[4])
                self.features.add("slot_read")
                return f"{v}.{slot}.{r.choice(sts)}"
            self.features.add("struct_read")
            return f"{v}.{r.choice(st[2])}"
        if k < 0.75:
            st = r.choice(STRUCTS)
            lt = r.choice(st[2])
            bm = r.choice(BATCH)
            if r.random() < 0.4:
                self.features.add("named_batch_read")
                nm = r.choice(NAMES)
                if r.random() < 0.5:
                    return f'{st[1]}["{nm}"].{lt}.{bm}'
                return f'{st[1]}["{nm}"].{bm}.{lt}'
            self.features.add("batch_read")
            if r.random() < 0.5:
                return f"{st[1]}.{lt}.{bm}"
            return f"{st[1]}.{bm}.{lt}"
        if k < 0.85 and self.cfg.own_stack:
            self.features.add("stack_read")
            return f"stack[{r.randrange(100, 108)}]"
        if k < 0.92:
            self.features.add("foreign_stack_read")
            return f"Stack(d{r.randrange(6)})[{r.randrange(4)}]"
        st = r.choice([s for s in STRUCTS if s[4]] or STRUCTS)
        if st[4]:
            slot, sts = r.choice(st[4])
            self.features.add("batch_slot_read")
            return f"{st[1]}.{slot}.{r.choice(sts)}.{r.choice(BATCH)}"
        return f"d0.{r.choice(LOGIC_R)}"

    def cmp(self, sc, depth):
        a = self.expr(sc, depth + 1, arith_only=True)
        b = self.expr(sc, depth + 1, arith_only=True)
        if not self.gate("const_test") and not _READ_RE.search(a + b):
            a = self.read(sc)  # keep comparisons input-dependent
        if self.r.random() < 0.5:
            a, b = b, a
        return f"{a} {self.r.choice(CMP)} {b}"

    def constish(self, text: str) -> bool:
        """May the compiler fold this expression to a literal?  (conservative: no device / stack read
        and only names that were only ever assigned constant-ish expressions)"""
        if _READ_RE.search(text) or "(" in text.replace("(-", "").strip("()") and re.search(r"[a-z_]+[0-9]*\(", text):
            return False
        for name in re.findall(r"[A-Za-z_][A-Za-z_0-9]*", text):
            if name in ("and", "or", "not", "if", "else"):
                continue
            if name not in self.constish_vars:
                return False
        return True

    def atom(self, sc):
        r = self.r
        k = r.random()
        if k < 0.35 and sc.vars:
            return r.choice(sc.vars)
        if k < 0.45 and self.global_vars and sc.is_func:
            return r.choice(self.global_vars)
        if k < 0.7:
            return self.read(sc)
        return self.const()

    def expr(self, sc, depth=0, arith_only=False):
        r = self.r
        if depth >= self.cfg.max_depth:
            return self.atom(sc)
        k = r.random()
        if k < 0.3:
            return self.atom(sc)
        if k < 0.6:
            op = r.choice(["+", "-", "*", "/", "+", "-", "*"])
            a = self.expr(sc, depth + 1, True)
            b = self.expr(sc, depth + 1, True)
            if op == "/" and self.constish(a) and self.constish(b):
                # constant / constant would fold to a literal that is not exactly printable
                b = repr(r.choice([2, 4, 8, 0.5]))
            self.features.add("binop")
            return f"({a} {op} {b})"
        if k < 0.64:
            self.features.add("mod")
            return f"({self.expr(sc, depth + 1, True)} % {r.choice([2, 3, 10, 60])})"
        if k < 0.68:
            self.features.add("neg")
            return f"(-{self.atom(sc)})"
        if k < 0.72 and self.cfg.math:
            self.features.add("math")
            fn = r.choice(["sin", "cos", "sqrt", "exp", "log", "tan", "atan"])
            a = self.expr(sc, depth + 1, True)
            if self.constish(a):
                a = self.read(sc)  # math on constants folds to a 16-digit literal: C03/C09 territory
            return f"{fn}({a})"
        if k < 0.76 and self.cfg.intrinsics:
            self.features.add("intrinsic_value")
            fn = r.choice(["abs", "floor", "ceil", "max", "min", "round", "trunc"])
            if fn in ("max", "min"):
                return f"{fn}({self.expr(sc, depth + 1, True)}, {self.expr(sc, depth + 1, True)})"
            return f"{fn}({self.expr(sc, depth + 1, True)})"
        if arith_only:
            return self.atom(sc)
        if k < 0.82:
            self.features.add("cmp_value")
            return f"({self.cmp(sc, depth)})"
        if k < 0.87:
            self.features.add("boolop")
            op = r.choice(["and", "or"])
            n = r.choice([2, 2, 3])
            return "(" + f" {op} ".join(self.cmp(sc, depth) for _ in range(n)) + ")"
        if k < 0.9:
            self.features.add("not_value")
            return f"(not {self.cmp(sc, depth)})"
        if k < 0.95:
            self.features.add("ifexp")
            return f"({self.expr(sc, depth + 1, True)} if {self.cmp(sc, depth)} else {self.expr(sc, depth + 1, True)})"
        if self.cfg.lists:
            return self.list_index(sc, depth)
        return self.atom(sc)

    def list_index(self, sc, depth):
        r = self.r
        hi = 8 if self.gate("jump_table") else 5
        n = r.randrange(1 if self.gate("list1_dynamic") else 2, hi + 1)
        vals = [self.const() for _ in range(n)]
        self.features.add(f"list_index_{'jt' if n >= 6 else 'sel'}")
        if r.random() < 0.3:
            return f"[{', '.join(vals)}][{r.randrange(n)}]"
        return f"[{', '.join(vals)}][{self.read(sc)}]"

    def call_expr(self, sc, depth=0):
        cands = [f for f in self.funcs if f[2] and f[0] != self.cur_func]
        if not cands:
            return None
        name, nargs, _ = self.r.choice(cands)
        self.features.add("call_value")
        args = ", ".join(self.call_arg(sc, name, depth + 1) for _ in range(nargs))
        return f"{name}({args})"

    def call_arg(self, sc, callee, depth):
        a = self.expr(sc, depth, True)
        if a.isidentifier() and callee in self.global_writers and not self.gate("inline_arg_alias"):
            a = f"({a} + 0)"
        return a

    # ---- statements ----------------------------------------------------------------------------
    def sink(self, sc, value):
        r = self.r
        k = r.random()
        if k < 0.35:
            self.features.add("db_write")
            return f"db.{r.choice(LOGIC_RW)} = {value}"
        if k < 0.5:
            self.features.add("pin_write")
            return f"d{r.randrange(6)}.{r.choice(LOGIC_RW)} = {value}"
        if k < 0.62 and self.devs:
            v, cls, st = r.choice(self.devs)
            if st[3]:
                self.features.add("struct_write")
                return f"{v}.{r.choice(st[3])} = {value}"
        if k < 0.8:
            st = r.choice([s for s in STRUCTS if s[3]])
            if r.random() < 0.4:
                self.features.add("named_batch_write")
                return f'{st[1]}["{r.choice(NAMES)}"].{r.choice(st[3])} = {value}'
            self.features.add("batch_write")
            return f"{st[1]}.{r.choice(st[3])} = {value}"
        if k < 0.88:
            self.features.add("foreign_stack_write")
            return f"Stack(d{r.randrange(6)})[{r.randrange(4)}] = {value}"
        if k < 0.94 and self.cfg.own_stack:
            self.features.add("stack_write")
            return f"stack[{r.randrange(100, 108)}] = {value}"
        st = r.choice([s for s in STRUCTS if s[4]])
        slot, sts = r.choice(st[4])
        self.features.add("slot_write")
        dv = [d for d in self.devs if d[2] is st]
        if dv:
            return f"{dv[0][0]}.{slot}.{r.choice(sts)} = {value}"
        return f"{st[1]}.{slot}.{r.choice(sts)} = {value}"

    def value_for_stmt(self, sc, depth):
        if sc.forlist_depth and not self.gate("forlist_call"):
            return self.expr(sc, depth)
        if self.funcs and self.r.random() < (0.5 if self.cfg.call_heavy else 0.15):
            c = self.call_expr(sc, depth)
            if c:
                return c
        return self.expr(sc, depth)

    def assign_target(self, sc, new_ok=True):
        r = self.r
        cands = [v for v in sc.vars if v not in sc.frozen]
        if cands and (r.random() < 0.5 or not new_ok):
            return r.choice(cands), False
        v = self.fresh("v")
        return v, True

    def block(self, sc, ind, n, depth, direct=False):
        out = []
        for _ in range(n):
            out += self.stmt(sc, ind, depth, direct)
        if not out:
            out = [ind + "pass"]
        return out

    def stmt(self, sc, ind, depth, direct=False):
        r = self.r
        k = r.random()
        deep = depth >= 2
        if k < 0.25:
            return [ind + self.sink(sc, self.value_for_stmt(sc, 1))]
        if k < 0.45:
            v, new = self.assign_target(sc)
            val = self.value_for_stmt(sc, 1)
            if (not self.gate("name_alias")) and val.isidentifier():
                val = f"({val} + 0)"
            line = [ind + f"{v} = {val}"]
            if self.constish(val) and v not in self.nonconst_vars:
                self.constish_vars.add(v)
            else:
                self.constish_vars.discard(v)
                self.nonconst_vars.add(v)
            if new:
                sc.vars.append(v)
            sc.assigned.add(v)
            return line
        if k < 0.55 and sc.vars:
            cands = [v for v in sc.vars if v not in sc.frozen]
            if cands:
                v = r.choice(cands)
                self.features.add("augassign")
                return [ind + f"{v} {r.choice(['+=', '-=', '*=', '/='])} {self.expr(sc, 2, True)}"]
        if k < 0.7 and not deep:
            self.features.add("if")
            out = [ind + f"if {self.test(sc)}:"]
            snap = list(sc.vars)
            out += self.block(sc, ind + "    ", r.randrange(1, 3), depth + 1)
            sc.vars = list(snap)
            kk = r.random()
            if kk < 0.3:
                self.features.add("elif")
                out += [ind + f"elif {self.test(sc)}:"]
                out += self.block(sc, ind + "    ", r.randrange(1, 3), depth + 1)
                sc.vars = list(snap)
            if kk < 0.6:
                self.features.add("else")
                out += [ind + "else:"]
                out += self.block(sc, ind + "    ", r.randrange(1, 3), depth + 1)
                sc.vars = list(snap)
            return out
        if k < 0.78 and not deep:
            return self.for_range(sc, ind, depth)
        if k < 0.82 and not deep and self.cfg.lists and (not sc.forlist_depth or self.gate("forlist_nested")):
            return self.for_list(sc, ind, depth)
        if k < 0.88 and not deep:
            return self.while_cmp(sc, ind, depth)
        if k < 0.92 and sc.loop_depth > 0:
            kws = ["break", "continue"]
            if not direct and not self.gate("break_nested"):
                kws.remove("break")
            if sc.in_forlist and not self.gate("break_in_forlist"):
                kws = []
            if kws:
                kw = r.choice(kws)
                self.features.add(kw)
                return [ind + f"if {self.test(sc)}:", ind + "    " + kw]
        if k < 0.96 and self.funcs and (not sc.forlist_depth or self.gate("forlist_call")):
            cands = [f for f in self.funcs if f[0] != self.cur_func]
            if cands:
                name, nargs, _ = r.choice(cands)
                self.features.add("call_stmt")
                args = ", ".join(self.call_arg(sc, name, 2) for _ in range(nargs))
                return [ind + f"{name}({args})"]
        if k < 0.98:
            self.features.add("yield")
            return [ind + "yield_()"]
        return [ind + self.sink(sc, self.expr(sc, 1))]

    def test(self, sc):
        r = self.r
        k = r.random()
        if k < 0.6:
            return self.cmp(sc, 1)
        if k < 0.7:
            self.features.add("if_not")
            return f"not {self.cmp(sc, 1)}"
        if k < 0.85:
            self.features.add("if_boolop")
            return f"{self.cmp(sc, 1)} {r.choice(['and', 'or'])} {self.cmp(sc, 1)}"
        if k < 0.93 and sc.vars:
            self.features.add("if_name")
            return r.choice(sc.vars)
        self.features.add("if_attr")
        return f"d{r.randrange(6)}.{r.choice(LOGIC_R)}"

    def for_range(self, sc, ind, depth):
        r = self.r
        self.features.add("for_range")
        i = self.fresh("i")
        k = r.random()
        if k < 0.4:
            rng = f"range({r.randrange(1, 4)})"
        elif k < 0.6:
            a = r.randrange(0, 3)
            rng = f"range({a}, {a + r.randrange(1, 4)})"
        elif k < 0.75:
            st = r.choice([2, 3])
            rng = f"range(0, {r.randrange(2, 7)}, {st})"
        elif k < 0.85:
            self.features.add("for_range_neg_step")
            a = r.randrange(2, 5)
            rng = f"range({a}, {a - r.randrange(1, 4)}, -1)"
        else:
            self.features.add("for_range_symbolic")
            rng = f"range({self.read(sc)})"
        out = [ind + f"for {i} in {rng}:"]
        snap = list(sc.vars)
        sc.vars.append(i)
        sc.frozen.add(i)
        sc.loop_depth += 1
        sc.in_for += 1
        fl, sc.in_forlist = sc.in_forlist, 0
        out += self.block(sc, ind + "    ", r.randrange(1, 3), depth + 1, True)
        sc.in_forlist = fl
        sc.in_for -= 1
        sc.loop_depth -= 1
        sc.vars = snap
        return out

    def for_list(self, sc, ind, depth):
        r = self.r
        self.features.add("for_list")
        x = self.fresh("x")
        vals = ", ".join(self.const() if r.random() < 0.7 else f'HASH("{r.choice(NAMES)}")' for _ in range(r.randrange(1, 4)))
        out = [ind + f"for {x} in [{vals}]:"]
        snap = list(sc.vars)
        sc.vars.append(x)
        sc.frozen.add(x)
        sc.loop_depth += 1
        sc.in_for += 1
        sc.in_forlist += 1
        sc.forlist_depth += 1
        out += self.block(sc, ind + "    ", r.randrange(1, 3), depth + 1, True)
        sc.forlist_depth -= 1
        sc.in_forlist -= 1
        sc.in_for -= 1
        sc.loop_depth -= 1
        sc.vars = snap
        return out

    def while_cmp(self, sc, ind, depth):
        r = self.r
        self.features.add("while_cmp")
        c = self.fresh("c")
        n = r.randrange(1, 4)
        out = [ind + f"{c} = 0", ind + f"while {c} < {n}:"]
        sc.vars.append(c)
        snap = list(sc.vars)
        sc.frozen.add(c)
        sc.loop_depth += 1
        was_for = sc.in_for
        sc.in_for = 0
        fl, sc.in_forlist = sc.in_forlist, 0
        body = self.block(sc, ind + "    ", r.randrange(1, 3), depth + 1, True)
        sc.in_forlist = fl
        # increment first so that `continue` cannot loop forever
        out += [ind + f"    {c} += 1"] + body
        sc.in_for = was_for
        sc.loop_depth -= 1
        sc.vars = snap
        return out

    # ---- program -------------------------------------------------------------------------------
    def function(self):
        r = self.r
        name = self.fresh(r.choice(["f", "calc", "update", "get_val", "step"]))
        nargs = r.randrange(0, 4 if not self.cfg.call_heavy else 5)
        params = [f"p{j}" for j in range(nargs)]
        has_ret = r.random() < (0.7 if self.cfg.call_heavy else 0.5)
        sc = Scope(self, True, params)
        sc.frozen |= set()  # parameters may be overwritten
        self.cur_func = name
        out = [f"def {name}({', '.join(params)}):"]
        if self.global_vars and self.cfg.allow_global_stmt and r.random() < 0.3:
            g = r.choice(self.global_vars)
            out.append(f"    global {g}")
            sc.vars.append(g)
            self.global_writers.add(name)
            self.features.add("global_stmt")
        body = []
        for _ in range(r.randrange(1, 4)):
            body += self.stmt(sc, "    ", 1)
            if has_ret and r.random() < 0.25:
                self.features.add("early_return")
                body += [f"    if {self.test(sc)}:", f"        return {self.expr(sc, 2, True)}"]
        if has_ret:
            rv = self.value_for_stmt(sc, 1) if self.cfg.call_heavy else self.expr(sc, 1)
            body.append(f"    return {rv}")
        if not self.gate("tail_call_other_calls") and body:
            last = body[-1]
            if re.match(r"^    [A-Za-z_][A-Za-z0-9_]*\(.*\)$", last) and not last.strip().startswith(("yield_", "sleep")):
                others = [l for l in body[:-1] if re.search(r"\b(f|calc|update|get_val|step)[0-9]+\(", l) or "return" in l]
                if others:
                    body.append("    pass")
        out += body
        self.cur_func = None
        self.funcs.append((name, nargs, has_ret))
        return out

    def program(self) -> str:
        r = self.r
        cfg = self.cfg
        out = ["from stationeers_pytrapic.symbols import *", ""]
        # devices
        for _ in range(r.randrange(0, 3)):
            st = r.choice(STRUCTS)
            v = self.fresh("dev")
            pin = f"d{r.randrange(6)}"
            k = r.random()
            if k < 0.7:
                out.append(f"{v} = {st[0]}({pin})")
            elif k < 0.85:
                self.features.add("alias")
                out.append(f"{v} = {st[0]}({pin}, alias=True)")
            else:
                self.features.add("ref_id_const")
                out.append(f"{v} = {st[0]}(ref_id={r.randrange(100, 999)})")
            self.devs.append((v, st[0], st))
        # named constants / globals
        gsc = Scope(self, False)
        for _ in range(r.randrange(0, 3)):
            g = self.fresh("G")
            if cfg.named_consts and r.random() < 0.5:
                out.append(f"{g} = {self.const()}")
                self.constish_vars.add(g)
                self.features.add("named_const")
            else:
                out.append(f"{g} = {self.read(gsc)}")
            self.global_vars.append(g)
            gsc.vars.append(g)
        out.append("")
        for _ in range(r.randrange(*cfg.n_funcs) if cfg.n_funcs[1] > cfg.n_funcs[0] else cfg.n_funcs[0]):
            out += self.function()
            out.append("")
        self.funcs += self.late_funcs
        body_n = r.randrange(*cfg.n_main_stmts)
        if r.random() < cfg.main_loop:
            self.features.add("main_loop")
            out.append("while True:")
            out.append("    yield_()")
            gsc.loop_depth += 1
            out += self.block(gsc, "    ", body_n, 1, True)
            gsc.loop_depth -= 1
        else:
            out += self.block(gsc, "", body_n, 0)
        return "\n".join(out) + "\n"


def wrap_multiline(line: str) -> str | None:
    """Break a statement inside its outermost parentheses after a top-level operator."""
    i = line.find("(")
    if i < 0 or line.lstrip().startswith(("def ", "if ", "elif ", "while ", "for ", "return ")):
        return None
    depth = 0
    inq = False
    for j in range(i, len(line)):
        ch = line[j]
        if ch == '"':
            inq = not inq
        if inq:
            continue
        if ch in "([":
            depth += 1
        elif ch in ")]":
            depth -= 1
            if depth == 0:
                break
        elif depth == 1 and ch == " ":
            for op in (" + ", " - ", " * ", " / ", " and ", " or ", " else ", ", "):
                if line.startswith(op, j) and j > i + 1:
                    k = j + len(op)
                    ind = len(line) - len(line.lstrip())
                    return line[:k].rstrip() + "\n" + " " * (ind + 8) + line[k:]
    return None


def generate(seed: int, cfg: Cfg | None = None):
    g = Gen(seed, cfg)
    src = g.program()
    if g.cfg.multiline > 0:
        r = random.Random(seed ^ 0x5EED)
        out = []
        for line in src.split("\n"):
            if r.random() < g.cfg.multiline:
                w = wrap_multiline(line)
                if w is not None:
                    g.features.add("multiline_stmt")
                    line = w
            out.append(line)
        src = "\n".join(out)
    return src, sorted(g.features)
