"""Deterministic construct probes: small programs that enumerate the forms of each construct of the
dialect systematically (every comparison operator in every test position, every range() shape,
every accessor kind, ...).  The seeded generator samples combinations; the probes make sure that no
table entry or loop shape is left to chance in the quick tier.  Inputs are device reads, so the solver
explores both sides of every comparison including the boundary values."""
from __future__ import annotations

HDR = "from stationeers_pytrapic.symbols import *\n"

CMPS = ["<", "<=", ">", ">=", "==", "!="]


def comparison_probes():
    out = []
    for op in CMPS:
        t = op.replace("<", "lt").replace(">", "gt").replace("==", "eq").replace("!=", "ne").replace("=", "e")
        for (a, b, tag) in (("x", "0.25", "sc"), ("2", "x", "cs"), ("x", "y", "ss")):
            pre = HDR + "x = d0.Setting\ny = d1.Setting\n"
            if tag == "cs":
                out.append((f"cmp:{t}:{tag}:ifelse", pre + f"if {a} {op} {b}:\n    db.Setting = 1\nelse:\n    db.Setting = 2\ndb.Mode = 3\n"))
                out.append((f"cmp:{t}:{tag}:value", pre + f"db.Setting = {a} {op} {b}\n"))
                continue
            out.append((f"cmp:{t}:{tag}:if", pre + f"if {a} {op} {b}:\n    db.Setting = 1\ndb.Mode = 2\n"))
            out.append((f"cmp:{t}:{tag}:ifelse", pre + f"if {a} {op} {b}:\n    db.Setting = 1\nelse:\n    db.Setting = 2\ndb.Mode = 3\n"))
            out.append((f"cmp:{t}:{tag}:ifnot", pre + f"if not {a} {op} {b}:\n    db.Setting = 1\nelse:\n    db.Setting = 2\n"))
            out.append((f"cmp:{t}:{tag}:elif", pre + f"if {a} {op} {b}:\n    db.Setting = 1\nelif {b} {op} {a}:\n    db.Setting = 2\nelse:\n    db.Setting = 3\n"))
            out.append((f"cmp:{t}:{tag}:value", pre + f"db.Setting = {a} {op} {b}\nz = {a} {op} {b}\ndb.Mode = z + 1\n"))
            out.append((f"cmp:{t}:{tag}:ifexp", pre + f"db.Setting = 5 if {a} {op} {b} else 7\n"))
            out.append((f"cmp:{t}:{tag}:while", pre + f"c = 0\nwhile {a} {op} {b}:\n    c += 1\n    db.Setting = c\n    x = d2.Setting\n    if c >= 2:\n        break\ndb.Mode = c\n"))
            out.append((f"cmp:{t}:{tag}:break", pre + f"c = 0\nwhile c < 3:\n    c += 1\n    if {a} {op} {b}:\n        break\n    db.Setting = c\n    x = d2.Setting\ndb.Mode = c\n"))
            out.append((f"cmp:{t}:{tag}:continue", pre + f"c = 0\nwhile c < 3:\n    c += 1\n    if {a} {op} {b}:\n        continue\n    db.Setting = c\ndb.Mode = c\n"))
    return out


def range_probes():
    out = []
    shapes = [
        "range(3)", "range(0)", "range(1, 4)", "range(2, 2)", "range(0, 6, 2)", "range(0, 5, 2)", "range(1, 8, 3)",
        "range(3, 0, -1)", "range(5, 1, -2)", "range(6, 0, -2)", "range(4, 4, -1)", "range(2, 5, -1)",
        "range(n)", "range(n, 3)", "range(0, n)", "range(n, 0, -1)", "range(4, n, -1)", "range(n, 6, 2)", "range(0, n, 3)",
        "range(n, m)", "range(n, 0, -2)",
    ]
    for i, sh in enumerate(shapes):
        pre = HDR + "n = d0.Setting\nm = d1.Setting\n"
        out.append((f"range:{i}:plain", pre + f"for i in {sh}:\n    db.Setting = i\ndb.Mode = 9\n"))
        if "n" not in sh and "m" not in sh:
            out.append((f"range:{i}:sum", pre + f"acc = 0\nfor i in {sh}:\n    acc += i\ndb.Setting = acc\n"))
        out.append((f"range:{i}:break", pre + f"for i in {sh}:\n    if d2.Setting > i:\n        break\n    db.Setting = i\ndb.Mode = 9\n"))
        out.append((f"range:{i}:continue", pre + f"for i in {sh}:\n    if d2.Setting > i:\n        continue\n    db.Setting = i\ndb.Mode = 9\n"))
    out.append(("range:nested", HDR + "for i in range(2):\n    for k in range(i, 3):\n        db.Setting = i * 10 + k\n"))
    out.append(("range:in_function", HDR + "def f(a, b):\n    t = 0\n    for k in range(a, b):\n        t += k\n        d1.Setting = t\n    return t\n\ndb.Setting = f(d0.Setting, 3)\ndb.Mode = f(1, d0.On)\n"))
    out.append(("range:while_inside", HDR + "for i in range(1, 3):\n    c = 0\n    while c < i:\n        c += 1\n        db.Setting = c + i\n"))
    return out


def boolean_probes():
    out = []
    pre = HDR + "a = d0.Setting\nb = d1.Setting\nc = d2.Setting\n"
    tests = ["a < 1 and b < 1", "a < 1 or b < 1", "a < 1 and b < 1 and c < 1", "a < 1 or b < 1 or c < 1", "a < 1 and b < 1 or c < 1",
             "a < 1 or b < 1 and c < 1", "not a < 1", "not (a < 1 and b < 1)", "(a < 1) == (b < 1)"]
    for i, t in enumerate(tests):
        out.append((f"bool:{i}:if", pre + f"if {t}:\n    db.Setting = 1\nelse:\n    db.Setting = 2\n"))
        out.append((f"bool:{i}:value", pre + f"db.Setting = {t}\n"))
    out.append(("bool:name_test", pre + "if a:\n    db.Setting = 1\nelse:\n    db.Setting = 2\nif not a:\n    db.Mode = 1\n"))
    out.append(("bool:attr_test", HDR + "if d0.On:\n    db.Setting = 1\nelse:\n    db.Setting = 2\n"))
    return out


def arithmetic_probes():
    out = []
    pre = HDR + "a = d0.Setting\nb = d1.Setting\nc = d2.Setting\n"
    exprs = ["a - b - c", "a - (b - c)", "a / b / c", "a / (b / c)", "a * b + c", "a + b * c", "(a + b) * c", "-a + b", "-(a + b)", "a % 3", "a % 60 + b % 2",
             "a - b * c / 2", "2 - a", "2 / a", "a / 2", "a * 0.5 - 1.5", "a + 1 + 2", "1 + 2 + a", "a * 2 * 3"]
    for i, e in enumerate(exprs):
        out.append((f"arith:{i}", pre + f"db.Setting = {e}\nt = {e}\ndb.Mode = t * 2\n"))
    for op in ["+=", "-=", "*=", "/="]:
        out.append((f"aug:{op}", pre + f"t = a\nt {op} b\nt {op} 2\ndb.Setting = t\n"))
    for fn, ar in [("abs", 1), ("ceil", 1), ("floor", 1), ("round", 1), ("trunc", 1), ("sqrt", 1), ("exp", 1), ("log", 1), ("sin", 1), ("cos", 1),
                   ("tan", 1), ("asin", 1), ("acos", 1), ("atan", 1), ("max", 2), ("min", 2), ("atan2", 2), ("mod", 2), ("xor", 2), ("sll", 2), ("srl", 2)]:
        args = "a" if ar == 1 else "a, b"
        args2 = "b" if ar == 1 else "b, a"
        out.append((f"fn:{fn}", pre + f"db.Setting = {fn}({args})\ndb.Mode = {fn}({args2}) + 1\n"))
    out.append(("fn:select", pre + "db.Setting = select(a, b, c)\n"))
    out.append(("fn:lerp", pre + "db.Setting = lerp(a, b, c)\n"))
    return out


def call_probes():
    out = []
    out.append(("call:arg_order", HDR + "def f(a, b, c):\n    return a - b * c\n\ndb.Setting = f(d0.Setting, d1.Setting, d2.Setting)\ndb.Mode = f(1, d0.On, 3)\n"))
    out.append(("call:arg_order4", HDR + "def f(a, b, c, d):\n    db.On = a\n    db.Mode = b\n    db.Open = c\n    db.Lock = d\n\nf(d0.Setting, 2, d1.Setting, 4)\nf(5, d2.Setting, 7, d3.Setting)\n"))
    out.append(("call:returns_in_branches", HDR + "def sign(x):\n    if x > 0:\n        return 1\n    elif x < 0:\n        return -1\n    return 0\n\ndb.Setting = sign(d0.Setting)\ndb.Mode = sign(d1.Setting)\n"))
    out.append(("call:else_return", HDR + "def g(v):\n    db.On = v\n\ndef pick(x):\n    g(x)\n    if x > 5:\n        return 10\n    else:\n        return 20\n\ndb.Setting = pick(d0.Setting)\ndb.Mode = pick(d1.Setting)\n"))
    out.append(("call:elif_else_return", HDR + "def g(v):\n    db.On = v\n\ndef pick(x):\n    g(x)\n    if x > 5:\n        return 10\n    elif x > 2:\n        return 15\n    else:\n        return 20\n\ndb.Setting = pick(d0.Setting)\ndb.Mode = pick(d1.Setting)\n"))
    out.append(("call:nested", HDR + "def inc(x):\n    return x + 1\n\ndef dbl(x):\n    return inc(x) * 2\n\ndef both(x, y):\n    return dbl(x) - inc(y)\n\ndb.Setting = both(d0.Setting, d1.Setting)\ndb.Mode = both(inc(d2.Setting), dbl(3))\n"))
    out.append(("call:early_return_after_call", HDR + "def h(a):\n    return a + 1\n\ndef g(a, b):\n    if a > b:\n        return h(a) - b\n    if b > 100:\n        return 0\n    x = h(b)\n    return x * 10 + a\n\ndb.Setting = g(d0.Setting, d1.Setting)\ndb.Mode = g(7, 1)\ndb.On = g(2, 3)\n"))
    out.append(("call:void_early_return", HDR + "def h(a):\n    db.On = a\n\ndef g(a):\n    h(a)\n    if a > 3:\n        return\n    h(a + 1)\n    db.Mode = a\n\ng(d0.Setting)\ng(d1.Setting)\n"))
    out.append(("call:in_condition", HDR + "def lim(x):\n    return x * 2\n\nif lim(d0.Setting) > d1.Setting:\n    db.Setting = 1\nelse:\n    db.Setting = lim(3)\n"))
    out.append(("call:global_update", HDR + "total = 0\n\ndef accum(v):\n    global total\n    total = total + v\n    db.Mode = total\n\naccum(d0.Setting)\naccum(d1.Setting)\ndb.Setting = total\n"))
    out.append(("call:once_inlined", HDR + "def once(a, b):\n    t = a * b\n    db.Mode = t\n    return t + 1\n\ndb.Setting = once(d0.Setting, d1.Setting)\n"))
    out.append(("call:result_unused", HDR + "def f(a):\n    db.Mode = a\n    return a * 2\n\nf(d0.Setting)\nf(d1.Setting)\ndb.Setting = 1\n"))
    out.append(("call:in_loop", HDR + "def f(a):\n    db.Mode = a\n    return a + 1\n\nx = d0.Setting\nfor i in range(3):\n    x = f(x + i)\ndb.Setting = x\n"))
    out.append(("call:values_live_across", HDR + "def f(a):\n    t = a * 3\n    u = t + a\n    return u - 1\n\np = d0.Setting\nq = d1.Setting\nr = f(p)\ns2 = f(q)\ndb.Setting = p + q + r + s2\ndb.Mode = p - q\n"))
    out.append(("call:multiline_args", HDR + "def f(a, b, c):\n    return a * 100 + b * 10 + c\n\ndef g(n):\n    v = d0.Setting\n    v = v + n\n    w = f(\n        v,\n        d1.Setting * 2,\n        d2.Setting + v,\n    )\n    db.Setting = w\n\ng(d3.Setting)\ng(2)\n"))
    # callees inlined into a function that is itself called (return register vs the caller's temporaries)
    out.append(("call:inl_in_func_expr", HDR + "def inner(a):\n    b = a * 2\n    c = b + a\n    return c - 1\n\ndef outer(x, y):\n    db.Setting = (x - y) * inner(x + y) + (x + 1) * (y + 2)\n\nouter(d0.Setting, d1.Setting)\nouter(1, 2)\n"))
    out.append(("call:inl_in_func_branches", HDR + "def inner2(q):\n    return q - 1\n\ndef inner(a):\n    if a > 3:\n        return a * 2\n    return a + 7\n\ndef outer(x, y):\n    u = x * 3\n    v = inner(y)\n    w = u + v\n    db.Setting = w * inner2(u)\n\nouter(d0.Setting, d1.Setting)\nouter(1, 2)\n"))
    out.append(("call:inl_chain", HDR + "def c3(a):\n    return a * a + 1\n\ndef c2(a):\n    t = a + 2\n    return c3(t) - a\n\ndef c1(a, b):\n    u = a * b\n    return c2(u) + a * 10 + b\n\ndef outer(x, y):\n    db.Setting = c1(x, y) + x * y\n\nouter(d0.Setting, d1.Setting)\nouter(1, 2)\n"))
    out.append(("call:inl_in_while_cond", HDR + "def inner(a):\n    t = a * 2\n    return t + 1\n\ndef outer(x, y):\n    k = 0\n    while inner(k) < x + y:\n        k = k + 1\n        if k > 3:\n            break\n    db.Setting = k\n\nouter(d0.Setting, d1.Setting)\nouter(1, 2)\n"))
    out.append(("call:two_inl_one_stmt", HDR + "def f1(a):\n    b = a * 2\n    return b + 1\n\ndef f2(a):\n    c = a * 3\n    return c + 2\n\ndef outer(x, y):\n    db.Setting = f1(x) * f2(y) + x\n\nouter(d0.Setting, d1.Setting)\nouter(1, 2)\n"))
    # a return on the function's last source line that sits inside a loop
    out.append(("call:return_last_line_for", HDR + "def pulse(lim):\n    for i in range(4):\n        db.Mode = i\n        if i >= lim:\n            return\n\npulse(d0.Setting)\ndb.On = 1\npulse(2)\n"))
    out.append(("call:return_last_line_while", HDR + "def wait(lim):\n    c = 0\n    while True:\n        c += 1\n        db.Mode = c\n        if c > lim:\n            return c\n\ndb.Setting = wait(d0.Setting)\ndb.On = wait(1)\n"))
    out.append(("call:return_last_line_else_with_call", HDR + "def g(v):\n    db.On = v\n\ndef pick(x):\n    g(x)\n    if x > 5:\n        y = x * 2\n        return y\n    else:\n        return 20\n\ndb.Setting = pick(d0.Setting)\ndb.Mode = pick(d1.Setting)\n"))
    # a function that calls a function defined later in the file (rejected by the pinned tree)
    out.append(("call:forward_reference", HDR + "def cycle(v):\n    arm(v)\n    db.Mode = v\n\ndef arm(v):\n    db.Setting = v + 100\n\ncycle(d0.Setting)\ncycle(3)\ndb.Setting = -1\n"))
    out.append(("call:forward_reference_twice", HDR + "def cycle(v):\n    arm(v)\n    arm(v + 1)\n    db.Mode = v\n\ndef arm(v):\n    db.Setting = v + 100\n\ncycle(d0.Setting)\ndb.Setting = -1\n"))
    out.append(("stmt:multiline_expr", HDR + "def g(n):\n    v = d0.Setting\n    v = v + n\n    x = (v +\n         d1.Setting * 2)\n    y = (x if v > 1\n         else d2.Setting * 3)\n    db.Setting = x\n    db.Mode = y\n\ng(d3.Setting)\ng(1)\n"))
    out.append(("stmt:multiline_last_use", HDR + "def g(n):\n    v = d0.Setting\n    v = v + n\n    x = (v +\n         d1.Setting * 2)\n    db.Setting = x\n\ng(d3.Setting)\ng(1)\n"))
    out.append(("stmt:multiline_last_use_args", HDR + "def f(a, b, c):\n    return a * 100 + b * 10 + c\n\ndef g(n):\n    v = d0.Setting\n    v = v + n\n    w = f(\n        v,\n        d1.Setting * 2,\n        d2.Setting + 1,\n    )\n    db.Setting = w\n\ng(d3.Setting)\ng(2)\n"))
    out.append(("stmt:multiline_ifexp", HDR + "def g(n):\n    v = d0.Setting\n    v = v * n\n    db.Setting = (v if d1.Setting > 1\n                  else d2.Setting * 3)\n\ng(d3.Setting)\ng(2)\n"))
    out.append(("stmt:multiline_main", HDR + "v = d0.Setting\nv = v + 1\ndb.Setting = (v +\n              d1.Setting * 2 -\n              d2.Setting / 4)\n"))
    return out


def access_probes():
    out = []
    out.append(("acc:pin", HDR + "db.Setting = d0.Setting + d5.On\nd3.Mode = db.Setting\n"))
    out.append(("acc:struct", HDR + "h = WallHeater(d2)\nsens = GasSensor(d3)\nh.On = sens.Temperature < 280\nh.Lock = sens.Pressure\n"))
    out.append(("acc:alias", HDR + "h = WallHeater(d2, alias=True)\nk = GrowLight(d1, alias=\"LAMP\")\nh.On = k.On\nk.On = 1\n"))
    out.append(("acc:ref_id", HDR + "b = Battery(ref_id=4242)\ndb.Setting = b.Charge\nb.Lock = 1\nst = Stack(ref_id=77)\nst[2] = b.Ratio\ndb.Mode = st[3]\n"))
    for bm in ["Average", "Sum", "Minimum", "Maximum"]:
        out.append((f"acc:batch:{bm}", HDR + f"db.Setting = Batteries.Charge.{bm}\ndb.Mode = Batteries.{bm}.Ratio\ndb.On = Batteries[\"B 1\"].Charge.{bm}\ndb.Open = Batteries[\"B 1\"].{bm}.Power\nx = Batteries[HASH(\"Z\")].{bm}\ndb.Lock = x.Charge + x.Ratio\n"))
    for bm in ["Average", "Sum", "Minimum", "Maximum"]:
        out.append((f"acc:batch_slot:{bm}", HDR + f"db.Setting = ArcFurnaces.Import.Quantity.{bm}\ndb.Mode = ArcFurnaces.slot1.Occupied.{bm}\ndb.On = ArcFurnaces[\"left\"].slot0.Quantity.{bm}\ndb.Open = ArcFurnaces[\"left\"].Export.OccupantHash.{bm}\n"))
    for bm in ["Average", "Sum", "Minimum", "Maximum"]:
        out.append((f"acc:batch_handle_store:{bm}", HDR + f"bank = Batteries[\"Bank1\"].{bm}\nx = bank.Charge\nbank.Lock = x > 5\nGrowLights.{bm}.On = d0.Setting\nv = ActiveVents.{bm}\nv.Mode = d1.Setting\n"))
    out.append(("acc:batch_store", HDR + "GrowLights.On = d0.Setting\nGrowLights[\"x\"].On = d1.Setting\nh = HASH(\"y\")\nGrowLights[h].Lock = 1\nv = ActiveVents\nv.Mode = d2.Setting\n"))
    out.append(("acc:slots", HDR + "f = ArcFurnace(d0)\nif f.Import.Occupied:\n    f.Activate = 1\nt = f.slot1.OccupantHash\nf.Export.Quantity = t\ndb.Setting = ArcFurnaces.Import.Quantity.Sum\ndb.Mode = ArcFurnaces.slot1.Occupied.Maximum\nArcFurnaces.Export.Occupied = d1.Setting\n"))
    out.append(("acc:ids", HDR + "h = WallHeater(d2)\ndb.Setting = h.PrefabHash\ndb.Mode = h.ReferenceId\ndb.On = h.NameHash\ndb.Open = WallHeaters.PrefabHash.Maximum\ndb.Lock = d0.PrefabHash + d1.ReferenceId\ndb.Setting = WallHeaters[\"a\"].ReferenceId.Minimum + WallHeaters.NameHash.Sum\n"))
    out.append(("acc:slot_store_named", HDR + "f = ArcFurnace(d0)\nf.slot0.Quantity = d1.Setting\nf.Import.Occupied = 1\ndb.Setting = f.slot1.ReferenceId + f.Export.PrefabHash\n"))
    out.append(("acc:stack", HDR + "stack[100] = d0.Setting\nstack[101] = stack[100] + 1\ndb.Setting = stack[101] + stack[102]\ni = 103\nstack[i] = 5\ndb.Mode = stack[i]\n"))
    out.append(("acc:stack_dynamic", HDR + "for i in range(100, 103):\n    stack[i] = i * 2\nt = 0\nfor k in range(100, 103):\n    t += stack[k]\ndb.Setting = t\n"))
    out.append(("acc:foreign_stack", HDR + "s3 = Stack(d3)\ns3[0] = d0.Setting\ndb.Setting = s3[1] + Stack(d4)[2]\nStack(d5)[d1.Setting] = 7\n"))
    out.append(("acc:generic", HDR + "dev = Device(d2)\ndb.Setting = dev.Temperature\ndev.Setting = 3\nb = _Devices('ModularDeviceSquareButton', 'name')\ndb.Mode = b.Maximum.Temperature\nb.Setting = 1\n"))
    out.append(("acc:enums", HDR + "disp = ConsoleLED5(d0)\ndisp.Mode = DisplayMode.String\ndisp.Setting = STR(\"Hi\")\ndb.Setting = LogicType.Temperature + SortingClass.Ores\nd1.Setting = HASH(\"StructureBattery\")\n"))
    out.append(("acc:intrinsics_io", HDR + "push(d0.Setting)\npush(3)\ndb.Setting = pop()\ndb.Mode = peek()\nx = pop()\ndb.On = l(d1, LogicType.Setting)\ns(d2, LogicType.On, x)\ndb.Open = lb(HASH(\"StructureBattery\"), LogicType.Charge, LogicBatchMethod.Sum)\nsleep(2)\nyield_()\ndb.Lock = 1\n"))
    out.append(("acc:const_list", HDR + "k = d0.Setting\ndb.Setting = [5, 6][k]\ndb.Mode = [1, 2, 3][k]\ndb.On = [10, 20, 30, 40, 50][d1.Setting]\nfor v in [3, 1, 2]:\n    db.Open = v\n"))
    out.append(("acc:for_list_hash", HDR + "for nm in [HASH(\"O2\"), HASH(\"N2\"), HASH(\"CO2\")]:\n    p = GasSensors[nm].Average.Pressure\n    ConsoleLED5s[nm].Setting = p\n"))
    out.append(("acc:string_operands", HDR + "x = d0.Setting\nif x == STR(\"#1\"):\n    db.Setting = 1\nelse:\n    db.Setting = 2\nc = 0\nwhile d1.Mode != HASH(\"Item #2\"):\n    c += 1\n    db.Mode = c\n    if c >= 2:\n        break\nif HASH(\"a: b\") == d2.Setting:\n    db.On = STR(\"a b\")\nGrowLights[\"Pump #2\"].On = x > STR(\"##\")\n"))
    out.append(("acc:named_const", HDR + "A = 50\nB = 20\nC = A * B\ndb.Setting = C / 1000 + d0.Setting\ndb.Mode = pi * 2 - tau\n"))
    out.append(("acc:global_scope", HDR + "g = d0.Setting\n\ndef show():\n    db.Setting = g\n\ndef bump():\n    global g\n    g = g + 1\n\nshow()\nbump()\nshow()\nbump()\ndb.Mode = g\n"))
    out.append(("acc:while_true", HDR + "n = 0\nwhile True:\n    yield_()\n    n = n + 1\n    db.Setting = n\n    if d0.Setting > n:\n        continue\n    db.Mode = n\n    if n >= 3:\n        break\ndb.On = n\n"))
    return out


def call_matrix():
    """Systematic call shapes: parameter usage x argument kind x call context x number of call sites x
    tail position.  (inlining decisions, argument aliasing/copying, tail calls, unused parameters)"""
    out = []
    param_use = {
        "ro": "    d1.Setting = n + k\n",
        "overwritten": "    while n > 0:\n        d1.Setting = n + k\n        n = n - 1\n",
        "aug": "    n += 1\n    d1.Setting = n + k\n",
        "unused_mid": "    d1.Setting = k\n",
    }
    arg_kind = {
        "const": ("", "3"),
        "var_single_use": ("count = d0.Setting\n", "count"),
        "var_multi_use": ("count = d0.Setting\ndb.Mode = count\n", "count"),
        "expr": ("count = d0.Setting\n", "count + 1"),
        "read": ("", "d0.Setting"),
    }
    for pu, body in param_use.items():
        for ak, (pre, arg) in arg_kind.items():
            for ctx in ("straight", "loop"):
                for ncalls in (1, 2):
                    name = f"callm:{pu}:{ak}:{ctx}:{ncalls}"
                    src = HDR + "def blink(n, m, k):\n" + body + "\n" + pre
                    call = f"blink({arg}, 7, 2)\n"
                    if ctx == "loop":
                        src += "c = 0\nwhile c < 3:\n    c += 1\n    " + call + "    yield_()\n"
                        if ncalls == 2:
                            src += "blink(1, 2, 3)\n"
                    else:
                        src += call + ("blink(1, 2, 3)\n" if ncalls == 2 else "") + "db.Open = 1\n"
                    out.append((name, src))
    # value-returning variants
    for pu in ("ro", "overwritten"):
        for ncalls in (1, 2):
            body = "    t = n * 2\n" if pu == "ro" else "    n = n * 2\n    t = n\n"
            src = HDR + "def f(n):\n" + body + "    return t + 1\n\nx = d0.Setting\nc = 0\nwhile c < 2:\n    c += 1\n    db.Setting = f(x)\n" + ("db.Mode = f(5)\n" if ncalls == 2 else "")
            out.append((f"callm:ret:{pu}:{ncalls}", src))
    # tail positions
    for callee_sites in (1, 2):
        for caller_sites in (1, 2):
            src = HDR + "def show(x):\n    d0.Setting = x\n\ndef step(x):\n    d1.Setting = x\n    show(x + 1)\n\n"
            src += "step(d2.Setting)\n" + ("step(10)\n" if caller_sites == 2 else "") + ("show(5)\n" if callee_sites == 2 else "") + "db.Open = 1\n"
            out.append((f"callm:tail:callee{callee_sites}:caller{caller_sites}", src))
            src2 = HDR + "def val(x):\n    return x * 2\n\ndef step(x):\n    d1.Setting = x\n    return val(x + 1)\n\n"
            src2 += "db.Setting = step(d2.Setting)\n" + ("db.Mode = step(10)\n" if caller_sites == 2 else "") + ("db.On = val(5)\n" if callee_sites == 2 else "")
            out.append((f"callm:tailret:callee{callee_sites}:caller{caller_sites}", src2))
    return out


def lifetime_probes():
    """variable lifetimes around loops and calls (register allocation): loop-carried values, values
    defined before / used after loops, nested loops, many live locals, values live across calls"""
    out = []
    F = HDR + "def f(n):\n"
    out.append(("life:before_loop_read_inside", F + "    a = d0.Setting\n    b = d1.Setting\n    t = 0\n    for i in range(3):\n        x = a + i\n        y = x * b\n        t = t + y\n        d2.Setting = t\n    db.Setting = t + n\n\nf(d3.Setting)\nf(2)\n"))
    out.append(("life:carried_prev", F + "    prev = 0\n    for i in range(3):\n        cur = Stack(d0)[i]\n        w = cur * 2\n        d1.Setting = w - prev\n        prev = cur\n    db.Setting = prev + n\n\nf(d3.Setting)\nf(2)\n"))
    out.append(("life:nested_loops", F + "    total = 0\n    for i in range(2):\n        row = d0.Setting + i\n        for k in range(2):\n            cell = row * 10 + k\n            tmp = cell + n\n            total = total + tmp\n            d1.Setting = tmp\n        d2.Setting = row\n    db.Setting = total\n\nf(d3.Setting)\nf(2)\n"))
    out.append(("life:used_after_loop", F + "    keep = d0.Setting * 2\n    other = d1.Setting + 1\n    c = 0\n    while c < 2:\n        c += 1\n        u = d2.Setting + c\n        v = u * u\n        d4.Setting = v\n    db.Setting = keep + other + n\n\nf(d3.Setting)\nf(2)\n"))
    out.append(("life:while_cond_var", F + "    lim = d0.Setting\n    x = 0\n    while x < lim:\n        y = x * 2 + n\n        d1.Setting = y\n        x = x + 1\n        if x > 3:\n            break\n    db.Setting = x + lim\n\nf(d3.Setting)\nf(2)\n"))
    out.append(("life:many_locals_loop", F + "    a = d0.Setting\n    b = d1.Setting\n    c = d2.Setting\n    d = d3.Setting\n    e = d4.Setting\n    for i in range(2):\n        p = a + b\n        q = c + d\n        r = e + i\n        s1 = p * q\n        s2 = q * r\n        db.Setting = s1 + s2 + n\n    db.Mode = a + b + c + d + e\n\nf(d5.Setting)\nf(2)\n"))
    out.append(("life:call_in_loop", HDR + "def g(v):\n    t = v * 3\n    u = t + 1\n    db.Mode = u\n    return u - v\n\ndef f(n):\n    a = d0.Setting\n    acc = 0\n    for i in range(3):\n        b = a + i\n        r = g(b)\n        acc = acc + r + b\n        d1.Setting = acc\n    db.Setting = acc + a + n\n\nf(d3.Setting)\nf(2)\n"))
    out.append(("life:main_loop_globals", HDR + "a = d0.Setting\nb = 0\nwhile True:\n    yield_()\n    t = d1.Setting + a\n    u = t * 2\n    b = b + u\n    db.Setting = b\n    if b > 100:\n        break\ndb.Mode = a + b\n"))
    out.append(("life:loop_in_branch", F + "    a = d0.Setting\n    if a > 1:\n        for i in range(2):\n            z = a * i\n            d1.Setting = z\n    else:\n        z2 = a + 5\n        d2.Setting = z2\n    db.Setting = a + n\n\nf(d3.Setting)\nf(2)\n"))
    for nm, hdr, call in (("stop", "def total(count):\n    acc = 0\n    for k in range(count):\n", "total(d0.Setting) + total(3)"),
                          ("start_stop", "def total(lo, hi):\n    acc = 0\n    for k in range(lo, hi):\n", "total(d0.Setting, d1.Setting) + total(1, 4)"),
                          ("step", "def total(lo, hi, st):\n    acc = 0\n    for k in range(lo, hi, st):\n", "total(0, d1.Setting, 2) + total(1, 8, 3)")):
        out.append((f"life:range_bound_param:{nm}", HDR + hdr + "        acc = acc + k * k\n        d2.Setting = acc - k * 2\n    return acc\n\ndb.Setting = " + call + "\n"))
    out.append(("life:nested_loops_call", HDR + "def show(v):\n    t = v * 10\n    db.Mode = t + 1\n\ndef grid(n):\n    for row in range(2):\n        for col in range(3):\n            base = col + 100\n            show(col)\n            base += row\n            db.Setting = base + n\n\ngrid(d0.Setting)\nshow(5)\n"))
    out.append(("life:triple_loops_call", HDR + "def show(v, w):\n    t = v * 10 + w\n    u = t * 2\n    db.Mode = u + 1\n\ndef cube(n):\n    for a in range(2):\n        for b in range(2):\n            for c in range(2):\n                keep = a * 100 + b * 10 + c\n                other = keep + n\n                show(c, b)\n                db.Setting = keep + other\n\ncube(d0.Setting)\nshow(5, 6)\n"))
    out.append(("life:while_for_call", HDR + "def show(v):\n    t = v + 1\n    db.Mode = t * 3\n\ndef run(n):\n    k = 0\n    while k < 2:\n        k += 1\n        for jj in range(2):\n            held = jj * 10 + k\n            show(jj)\n            db.Setting = held + n\n\nrun(d0.Setting)\nshow(9)\n"))
    dbody = "a = d0.On\nb = d1.On\nx = (a + b) * (a - b) + a * b\npump.Setting = x\ny = x * 2 + a\npump.On = y\n"
    for nm_, ctor in (("positional", "VolumePump(d0.Setting + 1)"), ("device_id_kw", "VolumePump(device_id=d0.Setting + 1)"), ("wrapped_generic", "VolumePump(Device(ref_id=d0.Setting + 1))"), ("ref_id_kw", "VolumePump(ref_id=d0.Setting + 1)")):
        out.append((f"life:device_id_expr:{nm_}", HDR + f"pump = {ctor}\n" + dbody))
    out.append(("life:two_loops_seq", F + "    a = d0.Setting\n    for i in range(2):\n        p = a + i\n        d1.Setting = p\n    b = d2.Setting\n    for k in range(2):\n        q = b + k + a\n        d4.Setting = q\n    db.Setting = a + b + n\n\nf(d3.Setting)\nf(2)\n"))
    # computed (non-constant) range bound / step held in a temporary of the for statement itself, with a body
    # that needs temporaries of its own: the bound must survive the whole loop
    # a global whose module-level initialisation stands below the functions that assign / read it and that is
    # used only inside functions afterwards: it lives for the whole program, module-level temporaries of the
    # main loop must not take its register
    out.append(("life:global_init_below_functions", HDR + "def bump():\n    global cnt\n    cnt = cnt + 1\n\ndef show():\n    db.Setting = cnt\n\ncnt = 0\nfor i in range(3):\n    v = d0.Setting * 2 + 1\n    d1.Setting = v - i\n    bump()\n    show()\n    w = Stack(db)[0] + v\n    d2.Setting = w * 3\n    bump()\n    show()\n"))
    out.append(("life:range_bound_computed", HDR + "n = db.Setting\nfor i in range(n * 2):\n    d0.Setting = i * 3 + 1\n    yield_()\n"))
    out.append(("life:range_bound_step_computed", F + "    t = 0\n    for i in range(1, n * 2 + 1, 2):\n        w = i * 3 + t\n        t = w - i * 2\n        d0.Setting = t\n    db.Setting = t\n\nf(d3.Setting)\nf(2)\n"))
    out.append(("life:range_bound_computed_nested", HDR + "n = d1.Setting\nfor i in range(n + 1):\n    for k in range(i * 2 + n):\n        d0.Setting = (i + 1) * (k + 2) - n\n    db.Setting = i * 5 + 1\n"))
    return out


def constness_probes():
    """names that are bound by a constant exactly once but are not constants: parameters, loop
    targets, names also bound in another branch / by an augmented assignment / in another function
    (what the single-assignment constant propagation must not treat as a literal)"""
    out = []
    out.append(("const:param_clamp_two_calls", HDR + "def set_level(level):\n    if level > 100:\n        level = 100\n    db.Setting = level\n\nset_level(d0.Setting)\nset_level(d1.Setting)\n"))
    out.append(("const:param_floor_inlined", HDR + "def out(v):\n    if v < 0:\n        v = 0\n    db.Setting = v * 2\n\nwhile True:\n    yield_()\n    out(d0.Setting)\n"))
    out.append(("const:param_clamp_expr_ret", HDR + "def clamp(v, hi):\n    db.Mode = v + hi\n    if v > hi:\n        v = 50 * 2\n    return v - 1\n\ndb.Setting = clamp(d0.Setting, 100)\ndb.On = clamp(d1.Setting, d2.Setting)\n"))
    out.append(("const:param_reset_after_use", HDR + "def pulse(n):\n    db.Mode = n\n    while n > 0:\n        db.On = n\n        n = 0\n    db.Setting = n\n\npulse(d0.Setting)\npulse(2)\n"))
    out.append(("const:var_clamp_main", HDR + "x = d0.Setting\nif x > 5:\n    x = 5\ndb.Setting = x\ny = 3\nif d1.Setting > 1:\n    y = 4\ndb.Mode = y\n"))
    out.append(("const:aug_after_const", HDR + "x = 5\nx += d0.Setting\ndb.Setting = x\nz = 2\nfor i in range(2):\n    z *= 3\ndb.Mode = z\n"))
    out.append(("const:global_set_in_function", HDR + "mode = 1\n\ndef toggle(v):\n    global mode\n    if v > 0:\n        mode = 2\n    db.Mode = mode\n\ntoggle(d0.Setting)\ndb.Setting = mode\ntoggle(d1.Setting)\ndb.On = mode\n"))
    out.append(("const:global_aug_in_function", HDR + "count = 10\n\ndef tick():\n    global count\n    count += 3\n\ntick()\ntick()\ndb.Setting = count * 2\n"))
    out.append(("const:global_aug_in_function_loop", HDR + "total = 0\nstep = 2\n\ndef accum(v):\n    global total, step\n    total += v\n    step *= 2\n    db.Mode = total - step\n\naccum(d0.Setting)\naccum(4)\ndb.Setting = total + step\n"))
    out.append(("const:global_aug_sub_in_two_functions", HDR + "left = 8\n\ndef take():\n    global left\n    left -= 1\n    return left\n\ndef give(n):\n    global left\n    left += n\n\ndb.Setting = take()\ngive(d0.Setting)\ndb.Mode = take() + left\n"))
    out.append(("const:loop_flag", HDR + "found = 0\nfor i in range(3):\n    if Stack(d0)[i] > 4:\n        found = 1\ndb.Setting = found\n"))
    out.append(("const:if_false_else", HDR + "x = d0.Setting\nif False:\n    db.Setting = 1\nelse:\n    db.Setting = x + 2\nif 0:\n    db.Mode = 1\nelif x > 5:\n    db.Mode = 2\nelse:\n    db.Mode = 3\nif 1 > 2:\n    db.On = 1\nelse:\n    db.On = x\n"))
    out.append(("const:if_false_else_in_func", HDR + "def regulate(level):\n    if False:\n        d1.Setting = 0\n    elif level > 50:\n        d1.Setting = 1\n    else:\n        d1.Setting = 2\n\nwhile True:\n    yield_()\n    regulate(d0.Setting)\n    if 1 > 2:\n        d2.Setting = 7\n    else:\n        d2.Setting = 8\n"))
    out.append(("const:named_false_else", HDR + "USE_HEATER = False\nLEVEL = 0\n\ndef report(v):\n    db.Setting = v\n    return v + 1\n\nx = d0.Setting\nif USE_HEATER:\n    db.On = 1\nelse:\n    d1.Setting = report(x)\nif LEVEL:\n    db.Mode = 1\nelse:\n    db.Mode = x\nd2.Setting = 99\n"))
    out.append(("const:if_true_else", HDR + "x = d0.Setting\nif True:\n    db.Setting = x\nelse:\n    db.Setting = 1\nif 2 > 1:\n    db.Mode = x + 1\nelif x:\n    db.Mode = 5\n"))
    out.append(("const:or_and_const_operand", HDR + "MASK = 4\nx = d0.Setting\ndb.Setting = MASK or x\ndb.Mode = 5 or x\ndb.On = 0 and x\ndb.Open = x or 4\ndb.Lock = 6 and x\nd1.Setting = MASK or x or 8\nd1.Mode = 0 or x\n"))
    for i, (a_, b_) in enumerate([(2, 2), (2, 3), (3, 2), (0.5, 0.5), (-1, -1)]):
        body = "".join(f"if LEVEL {op} REQUIRED:\n    d{j}.Setting = 1\nelse:\n    d{j}.Setting = 2\n" for j, op in enumerate(["<", "<=", ">", ">=", "==", "!="]))
        out.append((f"const:cmp_fold_if:{i}", HDR + f"LEVEL = {a_}\nREQUIRED = {b_}\n" + body + f"db.Setting = ({a_} >= {b_}) * 10 + ({a_} <= {b_}) + d0.Setting\n"))
    out.append(("const:true_constant_still_folds", HDR + "k = 6\nh = k * 7\ndb.Setting = h + d0.Setting\n"))
    return out


def loop_nest_probes():
    """break / continue inside nested loops (every mix of for-range and while): the jump must go to the
    innermost enclosing loop.  `lim` is read once, so the solver explores one class per loop position."""
    out = []
    outer = {"for": ("for i in range(3):\n", ""), "while": ("i = -1\nwhile i < 2:\n    i += 1\n", "")}
    inner = {"for": "    for k in range(3):\n", "while": "    k = -1\n    while k < 2:\n        k += 1\n"}
    for on, (ohead, _) in outer.items():
        for inn, ihead in inner.items():
            for kw in ("continue", "break"):
                src = HDR + "lim = d0.Setting\ntotal = 0\n" + ohead + ihead + f"        if k == lim:\n            {kw}\n        total = total + 10 * i + k\n        db.Mode = total\n    db.On = total + i\ndb.Setting = total\n"
                out.append((f"nest:{on}_{inn}:{kw}_inner", src))
            src = HDR + "lim = d0.Setting\ntotal = 0\n" + ohead + "    if i == lim:\n        continue\n" + ihead + "        total = total + 10 * i + k\n    db.On = total\ndb.Setting = total\n"
            out.append((f"nest:{on}_{inn}:continue_outer_before", src))
            src = HDR + "lim = d0.Setting\ntotal = 0\n" + ohead + ihead + "        total = total + 10 * i + k\n    if i == lim:\n        continue\n    db.On = total\ndb.Setting = total\n"
            out.append((f"nest:{on}_{inn}:continue_outer_after", src))
    out.append(("nest:triple:continue_middle", HDR + "lim = d0.Setting\nt = 0\nfor a in range(2):\n    for b in range(3):\n        if b == lim:\n            continue\n        for c in range(2):\n            t = t + a * 100 + b * 10 + c\n        db.Mode = t\n    db.On = t\ndb.Setting = t\n"))
    out.append(("nest:in_function", HDR + "def scan(lim):\n    t = 0\n    for a in range(3):\n        b = 0\n        while b < 3:\n            b += 1\n            if b == lim:\n                continue\n            t = t + a * 10 + b\n        db.Mode = t\n    return t\n\ndb.Setting = scan(d0.Setting)\ndb.On = scan(2)\n"))
    return out


def construct_probes():
    """further statement / expression forms: conditional expressions, elif chains, computed stack
    addresses, effect ordering around sleep / yield, unary minus, comparison values, named batch writes"""
    out = []
    pre = HDR + "a = d0.Setting\nb = d1.Setting\nc = d2.Setting\n"
    out.append(("ifexp:basic", pre + "db.Setting = a if b > 1 else c\ndb.Mode = (a + 1) if b else (c * 2)\n"))
    out.append(("ifexp:nested", pre + "db.Setting = 1 if a > 2 else (2 if b > 2 else 3)\n"))
    out.append(("ifexp:in_expr", pre + "db.Setting = 10 + (a if b > c else c) * 2\n"))
    out.append(("ifexp:as_arg", HDR + "def f(x):\n    db.Mode = x\n\nf(1 if d0.Setting > 0 else 2)\nf(d1.Setting if d2.Setting else 7)\n"))
    out.append(("ifexp:reads", pre + "x = d3.Setting if a > 0 else d4.Setting\ndb.Setting = x\n"))
    out.append(("elif:chain4", pre + "if a > 10:\n    db.Setting = 1\nelif a > 5:\n    db.Setting = 2\nelif b > 5:\n    db.Setting = 3\nelif c:\n    db.Setting = 4\nelse:\n    db.Setting = 5\ndb.Mode = 9\n"))
    out.append(("elif:no_else", pre + "if a > 10:\n    db.Setting = 1\nelif a > 5:\n    db.Setting = 2\nelif b > 5:\n    db.Setting = 3\ndb.Mode = 9\n"))
    out.append(("elif:nested", pre + "if a > 1:\n    if b > 1:\n        db.Setting = 1\n    elif c > 1:\n        db.Setting = 2\n    db.On = 1\nelif b > 1:\n    db.Setting = 3\nelse:\n    if c > 1:\n        db.Setting = 4\ndb.Mode = 9\n"))
    out.append(("else:if_else_then_stmt", pre + "y = 0\nif a < 10:\n    y = 1\nelse:\n    if a < 20:\n        y = 2\n    else:\n        y = 3\n    y += 10\ndb.Setting = y\n"))
    out.append(("else:if_elif_then_stmt", pre + "y = 0\nif a < 10:\n    y = 1\nelse:\n    if a < 20:\n        y = 2\n    elif b > 1:\n        y = 3\n    y += 10\n    db.Mode = y\ndb.Setting = y\n"))
    out.append(("if:if_else_then_stmt", pre + "y = 0\nif a < 10:\n    if b < 20:\n        y = 2\n    else:\n        y = 3\n    y += 10\nelse:\n    y = 1\ndb.Setting = y\n"))
    out.append(("elif:then_stmt_in_func", HDR + "def cls(a, b):\n    y = 0\n    if a < 10:\n        y = 1\n    elif a < 20:\n        if b:\n            y = 2\n        else:\n            y = 3\n        y += 10\n    else:\n        y = 4\n    return y\n\ndb.Setting = cls(d0.Setting, d1.Setting)\ndb.Mode = cls(15, 0)\n"))
    out.append(("stack:computed", pre + "stack[100 + 1] = a\nstack[a + 100] = b\ndb.Setting = stack[100 + a] + stack[c]\n"))
    out.append(("order:sleep_yield", pre + "db.Setting = 1\nsleep(a)\ndb.Setting = 2\nyield_()\ndb.Mode = b\nsleep(0.5)\nyield_()\ndb.On = 1\n"))
    out.append(("unary:minus", pre + "db.Setting = -a\ndb.Mode = -a * -b\ndb.On = -(-a)\nx = -3\ndb.Open = x - a\ndb.Lock = a - -2\n"))
    out.append(("unary:plus", pre + "db.Setting = +a\ndb.Mode = 2 * +b\ndb.On = +(a - b)\n"))
    out.append(("cmp:value", pre + "db.Setting = (a > b) + (b > c)\ndb.Mode = (a == b) * 5\nx = a != b\ndb.On = x\n"))
    out.append(("batch:named_write", HDR + "n1 = HASH(\"x\")\nGrowLights[n1].On = d0.Setting\nGrowLights[\"y z\"].Lock = 1\nWallHeaters[\"h\"].On = GrowLights[\"y z\"].On.Maximum\n"))
    out.append(("stmt:pass", pre + "if a:\n    pass\nelse:\n    db.Setting = 1\nfor i in range(2):\n    pass\ndb.Mode = 2\n"))
    out.append(("global:in_loop", HDR + "count = 0\n\ndef tick():\n    global count\n    count += 1\n    if count > 2:\n        count = 0\n\nfor i in range(4):\n    tick()\n    db.Setting = count\n"))
    out.append(("return:in_loop_value", HDR + "def first(lim):\n    i = 0\n    while i < 5:\n        if Stack(d0)[i] > lim:\n            return i\n        i += 1\n    return -1\n\ndb.Setting = first(d1.Setting)\ndb.Mode = first(2)\n"))
    out.append(("math:const_names", pre + "db.Setting = a * pi + tau\ndb.Mode = rgas * a\ndb.On = pi\n"))
    return out


def all_probes():
    return (comparison_probes() + range_probes() + boolean_probes() + arithmetic_probes() + call_probes() + access_probes() + call_matrix() + lifetime_probes()
            + constness_probes() + loop_nest_probes() + construct_probes())
