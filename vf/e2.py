"""E2 obligations: the repository's numeric kernels executed on symbolic arguments (vf.e2core),
property asserted per path, negation discharged by z3, every sat model replayed on the real,
uninstrumented function."""
from __future__ import annotations

import ast
import math
import struct
import time
from pathlib import Path

import z3

from . import e2core as E
from . import sym

F64 = E.F64
RNE, RTZ = E.RNE, E.RTZ
TWO53 = 2.0**53


def fp(name):
    return z3.FP(name, F64)


def finite(t):
    return z3.And(z3.Not(z3.fpIsNaN(t)), z3.Not(z3.fpIsInf(t)))


def model_float(m, t) -> float:
    v = m.eval(z3.fpToIEEEBV(t), model_completion=True)
    return struct.unpack("<d", struct.pack("<Q", v.as_long()))[0]


def model_int(m, t) -> int:
    v = m.eval(t, model_completion=True)
    if z3.is_bv(t):
        return v.as_signed_long()
    return v.as_long()


def to_long(t):
    return z3.fpToSBV(RTZ, t, E.BV64)


def from_long(b):
    return z3.fpSignedToFP(RNE, b, F64)


def b2f(c):
    return z3.If(c, E.fpv(1.0), E.fpv(0.0))


def oracle(opcode: str, a, b=None):
    """IC10 instruction semantics over Float64 terms (trusted, DESIGN 2.3)."""
    if opcode == "add":
        return z3.fpAdd(RNE, a, b)
    if opcode == "sub":
        return z3.fpSub(RNE, a, b)
    if opcode == "mul":
        return z3.fpMul(RNE, a, b)
    if opcode == "div":
        return z3.fpDiv(RNE, a, b)
    if opcode == "mod":
        r = E.fmod_term(a, b)
        return z3.If(z3.fpLT(r, E.fpv(0.0)), z3.fpAdd(RNE, r, b), r)
    if opcode == "pow":
        return E.uf_fp("pow", a, b)
    if opcode in ("and", "or", "xor", "nor"):
        x, y = to_long(a), to_long(b)
        r = {"and": x & y, "or": x | y, "xor": x ^ y, "nor": ~(x | y)}[opcode]
        return from_long(r)
    if opcode in ("sll", "sla"):
        return from_long(to_long(a) << to_long(b))
    if opcode == "srl":
        return from_long(z3.LShR(to_long(a), to_long(b)))
    if opcode == "sra":
        return from_long(to_long(a) >> to_long(b))
    if opcode == "seq":
        return b2f(z3.fpEQ(a, b))
    if opcode == "sne":
        return b2f(z3.Not(z3.fpEQ(a, b)))
    if opcode == "slt":
        return b2f(z3.fpLT(a, b))
    if opcode == "sle":
        return b2f(z3.fpLEQ(a, b))
    if opcode == "sgt":
        return b2f(z3.fpGT(a, b))
    if opcode == "sge":
        return b2f(z3.fpGEQ(a, b))
    if opcode == "seqz":
        return b2f(z3.fpIsZero(a))
    if opcode == "not":
        return from_long(~to_long(a))
    raise sym.Unsupported(f"no oracle for opcode {opcode}")


EXPECTED_OPCODE = {  # README: operator -> instruction
    "+": "add", "-": "sub", "*": "mul", "/": "div", "%": "mod", "**": "pow", "and": "and", "or": "or",
    "^": "xor", "&": "and", ">>": "srl", "<<": "sll", "==": "seq", "!=": "sne", "<": "slt", ">": "sgt",
    "<=": "sle", ">=": "sge",
}
EXPECTED_UNOP = {"-": "sub", "not": "seqz", "~": "not"}


def table_keys(fn_name):
    """Keys of the dict literal inside utils.get_binop_instruction / get_unop_instruction (AST)."""
    tree = ast.parse((E.PKG_DIR / "utils.py").read_text())
    for node in ast.walk(tree):
        if isinstance(node, ast.FunctionDef) and node.name == fn_name:
            for d in ast.walk(node):
                if isinstance(d, ast.Dict):
                    return [k.value for k in d.keys if isinstance(k, ast.Constant)]
    return []


def emitted_opcode(op, unary=False):
    """What the real compiler emits for the operator with non-constant operands."""
    from . import comp

    if unary:
        src = f"from stationeers_pytrapic.symbols import *\nx = stack[0]\ndb.Setting = {op} x\n" if op == "not" else \
            f"from stationeers_pytrapic.symbols import *\nx = stack[0]\ndb.Setting = {op}x\n"
    else:
        src = f"from stationeers_pytrapic.symbols import *\nx = stack[0]\ny = stack[1]\ndb.Setting = x {op} y\n"
    cap = comp.compile_capture(src, append_version=False)
    if not cap.ok:
        return None, cap.error
    lines = [l.split() for l in cap.code.split("\n")]
    for t in lines:
        if t and t[0] not in ("get", "s", "move", "l"):
            return t[0], cap.code
    return None, cap.code


def domain(op, xs, ys, xt, yt):
    """Range in which IC10 semantics are unambiguous (property statement)."""
    cs = []

    def num_dom(s, t):
        if isinstance(s, E.SFloat):
            cs.append(finite(t))
        else:
            cs.append(z3.And(t > -(2**53), t < 2**53))  # signed comparison on the 64-bit carrier

    num_dom(xs, xt)
    if ys is not None:
        num_dom(ys, yt)
    xf = E.to_sfloat(xs).t
    yf = E.to_sfloat(ys).t if ys is not None else None
    lim = E.fpv(TWO53)
    if op == "%":
        cs.append(z3.fpGT(yf, E.fpv(0.0)))
    if op in ("^", "&", "and", "or", ">>", "<<"):
        cs += [z3.fpLT(z3.fpAbs(xf), lim), z3.fpLT(z3.fpAbs(yf), lim)]
    if op in ("and", "or"):
        cs += [z3.fpEQ(z3.fpRoundToIntegral(RTZ, xf), xf), z3.fpEQ(z3.fpRoundToIntegral(RTZ, yf), yf)]
    if op in (">>", "<<"):
        cs += [z3.fpGEQ(yf, E.fpv(0.0)), z3.fpLEQ(yf, E.fpv(52.0))]
    if op == ">>":
        cs.append(z3.fpGEQ(xf, E.fpv(0.0)))
    return cs


def denote(v):
    """The double a fold result denotes once printed as an operand; None for non-numbers."""
    if isinstance(v, E.SFloat):
        return v.t
    if isinstance(v, E.SInt):
        return z3.fpSignedToFP(RNE, v.t, F64) if v.bv else z3.fpToFP(RNE, z3.ToReal(v.t), F64)
    if isinstance(v, E.SBool):
        return v.as_float_term()
    if isinstance(v, bool):
        return E.fpv(1.0 if v else 0.0)
    if isinstance(v, (int, float)):
        return E.fpv(float(v))
    return None


def concrete_oracle(opcode, *args):
    return sym.CONC[opcode](*[float(a) for a in args]) if opcode in sym.CONC else {
        "seq": lambda a, b: float(a == b), "sne": lambda a, b: float(a != b), "slt": lambda a, b: float(a < b),
        "sle": lambda a, b: float(a <= b), "sgt": lambda a, b: float(a > b), "sge": lambda a, b: float(a >= b),
        "seqz": lambda a: float(a == 0),
    }[opcode](*[float(a) for a in args])


def same_double(a, b):
    if isinstance(a, complex) or isinstance(b, complex):
        return False
    a, b = float(a), float(b)
    return a == b or (math.isnan(a) and math.isnan(b))


class Ob:
    """Bookkeeping of discharged obligations."""

    def __init__(self):
        self.n = 0
        self.unsat = 0
        self.sat = 0
        self.unknown = 0
        self.gaps = 0
        self.solver_s = 0.0
        self.paths = 0
        self.samples = []
        self.functions = set()

    def check(self, assertions, timeout_ms=30000):
        s = z3.Solver()
        s.set("timeout", timeout_ms)
        s.add(*assertions)
        t0 = time.time()
        r = str(s.check())
        self.solver_s += time.time() - t0
        self.n += 1
        if r == "sat":
            self.sat += 1
            return r, s.model()
        if r == "unsat":
            self.unsat += 1
        else:
            self.unknown += 1
        return r, None

    def as_dict(self):
        return dict(obligations=self.n, unsat=self.unsat, sat=self.sat, unknown=self.unknown, model_gaps=self.gaps,
                    paths=self.paths, solver_s=round(self.solver_s, 2), functions_encoded=sorted(self.functions))


def c03_operator_tables(tier):
    """-> (ob, findings) ; findings = list of dict(op, typing, kind, inputs, fold, chip, opcode)"""
    ob = Ob()
    findings = []
    u = E.load_instrumented("utils")
    from stationeers_pytrapic import utils as real_utils

    ob.functions |= {"utils.get_binop_instruction(op)[1] (every lambda)", "utils.get_unop_instruction(op)[1]", "utils._e"}
    typings = [("float", "float"), ("int", "int"), ("int", "float"), ("float", "int")]
    for op in table_keys("get_binop_instruction"):
        opcode, f = u.get_binop_instruction(op)
        emitted, _code = emitted_opcode(op)
        exp = EXPECTED_OPCODE.get(op)
        if emitted != opcode or (exp is not None and opcode != exp and not (op == "&" and opcode == "and")):
            findings.append(dict(op=op, typing="-", kind="opcode_mismatch", detail=f"table opcode {opcode!r}, emitted {emitted!r}, documented {exp!r}"))
        sem_op = emitted or opcode
        for tx, ty in typings:
            xt = fp("x") if tx == "float" else z3.BitVec("xi", 64)
            yt = fp("y") if ty == "float" else z3.BitVec("yi", 64)
            xs = E.SFloat(xt) if tx == "float" else E.SInt(xt)
            ys = E.SFloat(yt) if ty == "float" else E.SInt(yt)
            paths, c = E.explore(lambda: f(xs, ys))
            ob.paths += len(paths)
            E.set_ctx(sym.Ctx())  # for oracle-side fmod axioms
            E.ctx().begin_run([])
            xf, yf = E.to_sfloat(xs).t, E.to_sfloat(ys).t
            try:
                orc = oracle(sem_op, xf, yf)
            except sym.Unsupported as e:
                findings.append(dict(op=op, typing=f"{tx},{ty}", kind="no_oracle", detail=str(e)))
                E.ctx().end_run()
                continue
            orc_ax = list(E.ctx().solver.assertions())
            dom = domain(op, xs, ys, xt, yt)
            E.ctx().end_run()
            for pc, out, asserts in paths:
                if out[0] == "gap":
                    ob.gaps += 1
                    continue
                if out[0] == "raise":
                    continue  # no literal is produced on this path
                v = out[1]
                d = denote(v)
                extra = []
                if isinstance(v, E.SInt):
                    extra.append(z3.And(v.t > -(2**53), v.t < 2**53))  # result representable (stated range)
                if d is None:
                    goal = z3.BoolVal(True)  # a non-number (complex, ...) is never the chip's value
                else:
                    goal = z3.Not(z3.Or(z3.fpEQ(d, orc), z3.And(z3.fpIsNaN(d), z3.fpIsNaN(orc))))
                    if op == "**":
                        extra.append(finite(orc))
                r, m = ob.check(asserts + orc_ax + dom + extra + [goal])
                if r != "sat":
                    continue
                xv = model_float(m, xt) if tx == "float" else model_int(m, xt)
                yv = model_float(m, yt) if ty == "float" else model_int(m, yt)
                # replay on the real, uninstrumented table
                try:
                    real = real_utils.get_binop_instruction(op)[1](xv, yv)
                except Exception as e:
                    continue  # raises: no fold
                chip = concrete_oracle(sem_op, xv, yv)
                if not same_double(real, chip):
                    findings.append(dict(op=op, typing=f"{tx},{ty}", kind="fold_differs", inputs=[xv, yv], fold=repr(real), chip=chip, opcode=sem_op))
                    if len(ob.samples) < 3:
                        ob.samples.append(dict(op=op, typing=f"{tx},{ty}", counterexample=[xv, yv], fold=repr(real), chip=chip))
    for op in table_keys("get_unop_instruction"):
        opcode, f = u.get_unop_instruction(op)
        emitted, code = emitted_opcode(op, unary=True)
        if op == "~":
            # the emitted opcode must be a real instruction (C09); the fold raises TypeError on floats
            pass
        for tx in ("float", "int"):
            xt = fp("x") if tx == "float" else z3.BitVec("xi", 64)
            xs = E.SFloat(xt) if tx == "float" else E.SInt(xt)
            paths, c = E.explore(lambda: f(xs))
            ob.paths += len(paths)
            xf = E.to_sfloat(xs).t
            sem = {"-": lambda a: oracle("sub", E.fpv(0.0), a), "not": lambda a: oracle("seqz", a), "~": lambda a: oracle("not", a)}.get(op)
            if sem is None:
                findings.append(dict(op=op, typing=tx, kind="no_oracle", detail="unknown unary operator"))
                continue
            orc = sem(xf)
            dom = domain("u" + op, xs, None, xt, None)
            if op == "~":
                dom.append(z3.fpLT(z3.fpAbs(xf), E.fpv(TWO53)))
            for pc, out, asserts in paths:
                if out[0] != "value":
                    if out[0] == "gap":
                        ob.gaps += 1
                    continue
                d = denote(out[1])
                goal = z3.BoolVal(True) if d is None else z3.Not(z3.Or(z3.fpEQ(d, orc), z3.And(z3.fpIsNaN(d), z3.fpIsNaN(orc))))
                r, m = ob.check(asserts + dom + [goal])
                if r != "sat":
                    continue
                xv = model_float(m, xt) if tx == "float" else model_int(m, xt)
                try:
                    real = real_utils.get_unop_instruction(op)[1](xv)
                except Exception:
                    continue
                chip = {"-": lambda a: 0.0 - a, "not": lambda a: float(a == 0), "~": lambda a: sym.CONC["not"](a)}[op](float(xv))
                if not same_double(real, chip):
                    findings.append(dict(op="u" + op, typing=tx, kind="fold_differs", inputs=[xv], fold=repr(real), chip=chip, opcode=emitted))
    if not ob.samples:
        ob.samples.append(dict(op="+", typing="float,float", result="unsat: fold == add for all finite doubles"))
    return ob, findings


def c03_math_functions():
    """Closed: folder = math.<name>, emitted opcode has the same name and argument order."""
    from . import comp
    from stationeers_pytrapic import utils as real_utils

    out = []
    names = sorted(real_utils._math_functions)
    for name in names:
        if name == "atan2":
            src = f"from stationeers_pytrapic.symbols import *\na = stack[0]\nb = stack[1]\ndb.Setting = atan2(a, b)\n"
        else:
            src = f"from stationeers_pytrapic.symbols import *\na = stack[0]\ndb.Setting = {name}(a)\n"
        cap = comp.compile_capture(src, append_version=False)
        ok = cap.ok
        detail = None
        if ok:
            toks = [l.split() for l in cap.code.split("\n")]
            line = next((t for t in toks if t and t[0] == name), None)
            regs = {}
            for t in toks:
                if t[0] == "get" and len(t) == 4:
                    regs[t[3]] = t[1]
            if line is None:
                ok, detail = False, f"no instruction named {name} in\n{cap.code}"
            elif name == "atan2" and not (line[2] == regs.get("0") and line[3] == regs.get("1")):
                ok, detail = False, f"argument order changed: {line} with {regs}"
        else:
            detail = cap.error
        # folding: a constant argument must give math.<name>(c) (or decline)
        for cval in (0.5, 2.0):
            args = f"{cval}, 0.25" if name == "atan2" else f"{cval}"
            cap2 = comp.compile_capture(f"from stationeers_pytrapic.symbols import *\ndb.Setting = {name}({args})\n", append_version=False)
            if cap2.ok:
                t = cap2.code.split("\n")[-1].split()
                try:
                    want = getattr(math, name)(*([cval, 0.25] if name == "atan2" else [cval]))
                    got = float(t[-1]) if t[0] == "s" else None
                    if got is not None and not (abs(got - want) <= 1e-15 * max(1.0, abs(want)) * 4):
                        ok, detail = False, f"{name}({args}) folded to {got}, math gives {want}"
                except ValueError:
                    pass
        out.append(dict(name=name, ok=ok, detail=detail))
    return out


def c03_one_operator(args):
    """Worker: obligations of one table entry (binary or unary operator)."""
    kind, op = args
    full_ob, findings = _c03_ops([op] if kind == "bin" else [], [op] if kind == "un" else [])
    return full_ob.as_dict(), findings, full_ob.samples


def _known_wrong(op, xf, yf):
    """Semantics of the *recorded* defective folds (known findings), used to tell the known defect
    from a new one."""
    if op in ("and", "or"):
        # Python value semantics of `x and y` (the `or` entry evaluates `and` as well)
        return z3.If(z3.Not(z3.fpIsZero(xf)), yf, xf)
    return None


def _c03_ops(binops, unops):
    ob = Ob()
    findings = []
    u = E.load_instrumented("utils")
    from stationeers_pytrapic import utils as real_utils

    ob.functions |= {"utils.get_binop_instruction(op)[1] (every lambda)", "utils.get_unop_instruction(op)[1]", "utils._e"}
    typings = [("float", "float"), ("int", "int"), ("int", "float"), ("float", "int")]
    for op in binops:
        opcode, f = u.get_binop_instruction(op)
        emitted, _code = emitted_opcode(op)
        exp = EXPECTED_OPCODE.get(op)
        if emitted != opcode or (exp is not None and opcode != exp):
            findings.append(dict(op=op, typing="-", kind="opcode_mismatch", detail=f"table opcode {opcode!r}, emitted {emitted!r}, documented {exp!r}"))
        sem_op = emitted or opcode
        for tx, ty in typings:
            xt = fp("x") if tx == "float" else z3.BitVec("xi", 64)
            yt = fp("y") if ty == "float" else z3.BitVec("yi", 64)
            xs = E.SFloat(xt) if tx == "float" else E.SInt(xt)
            ys = E.SFloat(yt) if ty == "float" else E.SInt(yt)
            paths, c = E.explore(lambda: f(xs, ys))
            ob.paths += len(paths)
            E.set_ctx(sym.Ctx())
            E.ctx().begin_run([])
            xf, yf = E.to_sfloat(xs).t, E.to_sfloat(ys).t
            try:
                orc = oracle(sem_op, xf, yf)
            except sym.Unsupported as e:
                findings.append(dict(op=op, typing=f"{tx},{ty}", kind="no_oracle", detail=str(e)))
                E.ctx().end_run()
                continue
            orc_ax = list(E.ctx().solver.assertions())
            dom = domain(op, xs, ys, xt, yt)
            E.ctx().end_run()
            kw = _known_wrong(op, xf, yf)
            for pc, out, asserts in paths:
                if out[0] == "gap":
                    ob.gaps += 1
                    continue
                if out[0] == "raise":
                    continue
                v = out[1]
                d = denote(v)
                extra = []
                if isinstance(v, E.SInt):
                    extra.append(z3.And(v.t > -(2**53), v.t < 2**53))
                if op == "**":
                    extra.append(finite(orc))
                if d is None:
                    goal = z3.BoolVal(True)
                else:
                    goal = z3.Not(z3.Or(z3.fpEQ(d, orc), z3.And(z3.fpIsNaN(d), z3.fpIsNaN(orc))))
                r, m = ob.check(asserts + orc_ax + dom + extra + [goal])
                if r == "unknown":
                    findings.append(dict(op=op, typing=f"{tx},{ty}", kind="inconclusive", detail="solver answered unknown"))
                if r != "sat":
                    continue
                xv = model_float(m, xt) if tx == "float" else model_int(m, xt)
                yv = model_float(m, yt) if ty == "float" else model_int(m, yt)
                try:
                    real = real_utils.get_binop_instruction(op)[1](xv, yv)
                except Exception:
                    continue
                chip = concrete_oracle(sem_op, xv, yv)
                if same_double(real, chip):
                    continue  # does not replay: encoding artefact, not reported
                fd = dict(op=op, typing=f"{tx},{ty}", kind="fold_differs", inputs=[xv, yv], fold=repr(real), chip=chip, opcode=sem_op)
                if d is None:
                    fd["kind"] = "fold_not_a_number"
                elif kw is not None:
                    # is the fold still exactly the recorded defective semantics?
                    r2, _ = ob.check(asserts + dom + extra + [z3.Not(z3.Or(z3.fpEQ(d, kw), z3.And(z3.fpIsNaN(d), z3.fpIsNaN(kw))))])
                    fd["matches_recorded_defect"] = (r2 == "unsat")
                findings.append(fd)
                if len(ob.samples) < 3:
                    ob.samples.append(dict(op=op, typing=f"{tx},{ty}", counterexample=[xv, yv], fold=repr(real), chip=chip))
    for op in unops:
        opcode, f = u.get_unop_instruction(op)
        emitted, code = emitted_opcode(op, unary=True)
        exp = EXPECTED_UNOP.get(op)
        if emitted != opcode or (exp is not None and opcode != exp):
            findings.append(dict(op="u" + op, typing="-", kind="opcode_mismatch", detail=f"table opcode {opcode!r}, emitted {emitted!r}, documented {exp!r}"))
        for tx in ("float", "int"):
            xt = fp("x") if tx == "float" else z3.BitVec("xi", 64)
            xs = E.SFloat(xt) if tx == "float" else E.SInt(xt)
            paths, c = E.explore(lambda: f(xs))
            ob.paths += len(paths)
            xf = E.to_sfloat(xs).t
            sem = {"-": lambda a: oracle("sub", E.fpv(0.0), a), "not": lambda a: oracle("seqz", a), "~": lambda a: oracle("not", a)}.get(op)
            if sem is None:
                findings.append(dict(op="u" + op, typing=tx, kind="no_oracle", detail="unknown unary operator"))
                continue
            orc = sem(xf)
            dom = domain("u" + op, xs, None, xt, None)
            if op == "~":
                dom.append(z3.fpLT(z3.fpAbs(xf), E.fpv(TWO53)))
            for pc, out, asserts in paths:
                if out[0] != "value":
                    if out[0] == "gap":
                        ob.gaps += 1
                    continue
                d = denote(out[1])
                goal = z3.BoolVal(True) if d is None else z3.Not(z3.Or(z3.fpEQ(d, orc), z3.And(z3.fpIsNaN(d), z3.fpIsNaN(orc))))
                r, m = ob.check(asserts + dom + [goal])
                if r != "sat":
                    continue
                xv = model_float(m, xt) if tx == "float" else model_int(m, xt)
                try:
                    real = real_utils.get_unop_instruction(op)[1](xv)
                except Exception:
                    continue
                chip = {"-": lambda a: 0.0 - a, "not": lambda a: float(a == 0), "~": lambda a: sym.CONC["not"](a)}[op](float(xv))
                if not same_double(real, chip):
                    findings.append(dict(op="u" + op, typing=tx, kind="fold_differs", inputs=[xv], fold=repr(real), chip=chip, opcode=emitted))
    return ob, findings
