"""E2 obligations: the repository's numeric kernels executed on symbolic arguments (vf.e2core),
property asserted per path, negation discharged by z3, every sat model replayed on the real,
uninstrumented function."""
from __future__ import annotations

import ast
import math
import struct
import time
from pathlib import Path

import z3

from . import e2core as E
from . import sym

F64 = E.F64
RNE, RTZ = E.RNE, E.RTZ
TWO53 = 2.0**53


def fp(name):
    return z3.FP(name, F64)


def finite(t):
    return z3.And(z3.Not(z3.fpIsNaN(t)), z3.Not(z3.fpIsInf(t)))


def model_float(m, t) -> float:
    v = m.eval(z3.fpToIEEEBV(t), model_completion=True)
    return struct.unpack("<d", struct.pack("<Q", v.as_long()))[0]


def model_int(m, t) -> int:
    v = m.eval(t, model_completion=True)
    if z3.is_bv(t):
        return v.as_signed_long()
    return v.as_long()


def to_long(t):
    return z3.fpToSBV(RTZ, t, E.BV64)


def from_long(b):
    return z3.fpSignedToFP(RNE, b, F64)


def b2f(c):
    return z3.If(c, E.fpv(1.0), E.fpv(0.0))


def oracle(opcode: str, a, b=None):
    """IC10 instruction semantics over Float64 terms (trusted, DESIGN 2.3)."""
    if opcode == "add":
        return z3.fpAdd(RNE, a, b)
    if opcode == "sub":
        return z3.fpSub(RNE, a, b)
    if opcode == "mul":
        return z3.fpMul(RNE, a, b)
    if opcode == "div":
        return z3.fpDiv(RNE, a, b)
    if opcode == "mod":
        r = E.fmod_term(a, b)
        return z3.If(z3.fpLT(r, E.fpv(0.0)), z3.fpAdd(RNE, r, b), r)
    if opcode == "pow":
        return E.uf_fp("pow", a, b)
    if opcode in ("and", "or", "xor", "nor"):
        x, y = to_long(a), to_long(b)
        r = {"and": x & y, "or": x | y, "xor": x ^ y, "nor": ~(x | y)}[opcode]
        return from_long(r)
    if opcode in ("sll", "sla"):
        return from_long(to_long(a) << to_long(b))
    if opcode == "srl":
        return from_long(z3.LShR(to_long(a), to_long(b)))
    if opcode == "sra":
        return from_long(to_long(a) >> to_long(b))
    if opcode == "seq":
        return b2f(z3.fpEQ(a, b))
    if opcode == "sne":
        return b2f(z3.Not(z3.fpEQ(a, b)))
    if opcode == "slt":
        return b2f(z3.fpLT(a, b))
    if opcode == "sle":
        return b2f(z3.fpLEQ(a, b))
    if opcode == "sgt":
        return b2f(z3.fpGT(a, b))
    if opcode == "sge":
        return b2f(z3.fpGEQ(a, b))
    if opcode == "seqz":
        return b2f(z3.fpIsZero(a))
    if opcode == "not":
        return from_long(~to_long(a))
    raise sym.Unsupported(f"no oracle for opcode {opcode}")


EXPECTED_OPCODE = {  # README: operator -> instruction
    "+": "add", "-": "sub", "*": "mul", "/": "div", "%": "mod", "**": "pow", "and": "and", "or": "or",
    "^": "xor", "&": "and", ">>": "srl", "<<": "sll", "==": "seq", "!=": "sne", "<": "slt", ">": "sgt",
    "<=": "sle", ">=": "sge",
}
EXPECTED_UNOP = {"-": "sub", "not": "seqz", "~": "not"}


def table_keys(fn_name):
    """Keys of the dict literal inside utils.get_binop_instruction / get_unop_instruction (AST)."""
    tree = ast.parse((E.PKG_DIR / "utils.py").read_text())
    for node in ast.walk(tree):
        if isinstance(node, ast.FunctionDef) and node.name == fn_name:
            for d in ast.walk(node):
                if isinstance(d, ast.Dict):
                    return [k.value for k in d.keys if isinstance(k, ast.Constant)]
    return []


def emitted_opcode(op, unary=False):
    """What the real compiler emits for the operator with non-constant operands."""
    from . import comp

    if unary:
        src = f"from stationeers_pytrapic.symbols import *\nx = stack[0]\ndb.Setting = {op} x\n" if op == "not" else \
            f"from stationeers_pytrapic.symbols import *\nx = stack[0]\ndb.Setting = {op}x\n"
    else:
        src = f"from stationeers_pytrapic.symbols import *\nx = stack[0]\ny = stack[1]\ndb.Setting = x {op} y\n"
    cap = comp.compile_capture(src, append_version=False)
    if not cap.ok:
        return None, cap.error
    lines = [l.split() for l in cap.code.split("\n")]
    for t in lines:
        if t and t[0] not in ("get", "s", "move", "l"):
            return t[0], cap.code
    return None, cap.code


def domain(op, xs, ys, xt, yt):
    """Range in which IC10 semantics are unambiguous (property statement)."""
    cs = []

    def num_dom(s, t):
        if isinstance(s, E.SFloat):
            cs.append(finite(t))
        else:
            cs.append(z3.And(t > -(2**53), t < 2**53))  # signed comparison on the 64-bit carrier

    num_dom(xs, xt)
    if ys is not None:
        num_dom(ys, yt)
    xf = E.to_sfloat(xs).t
    yf = E.to_sfloat(ys).t if ys is not None else None
    lim = E.fpv(TWO53)
    if op == "%":
        cs.append(z3.fpGT(yf, E.fpv(0.0)))
    if op in ("^", "&", "and", "or", ">>", "<<"):
        cs += [z3.fpLT(z3.fpAbs(xf), lim), z3.fpLT(z3.fpAbs(yf), lim)]
    if op in ("and", "or"):
        cs += [z3.fpEQ(z3.fpRoundToIntegral(RTZ, xf), xf), z3.fpEQ(z3.fpRoundToIntegral(RTZ, yf), yf)]
    if op in (">>", "<<"):
        cs += [z3.fpGEQ(yf, E.fpv(0.0)), z3.fpLEQ(yf, E.fpv(52.0))]
    if op == ">>":
        cs.append(z3.fpGEQ(xf, E.fpv(0.0)))
    return cs


def denote(v):
    """The double a fold result denotes once printed as an operand; None for non-numbers."""
    if isinstance(v, E.SFloat):
        return v.t
    if isinstance(v, E.SInt):
        return z3.fpSignedToFP(RNE, v.t, F64) if v.bv else z3.fpToFP(RNE, z3.ToReal(v.t), F64)
    if isinstance(v, E.SBool):
        return v.as_float_term()
    if isinstance(v, bool):
        return E.fpv(1.0 if v else 0.0)
    if isinstance(v, (int, float)):
        return E.fpv(float(v))
    return None


def concrete_oracle(opcode, *args):
    return sym.CONC[opcode](*[float(a) for a in args]) if opcode in sym.CONC else {
        "seq": lambda a, b: float(a == b), "sne": lambda a, b: float(a != b), "slt": lambda a, b: float(a < b),
        "sle": lambda a, b: float(a <= b), "sgt": lambda a, b: float(a > b), "sge": lambda a, b: float(a >= b),
        "seqz": lambda a: float(a == 0),
    }[opcode](*[float(a) for a in args])


def same_double(a, b):
    if isinstance(a, complex) or isinstance(b, complex):
        return False
    a, b = float(a), float(b)
    return a == b or (math.isnan(a) and math.isnan(b))


class Ob:
    """Bookkeeping of discharged obligations."""

    def __init__(self):
        self.n = 0
        self.unsat = 0
        self.sat = 0
        self.unknown = 0
        self.gaps = 0
        self.solver_s = 0.0
        self.paths = 0
        self.samples = []
        self.functions = set()

    def check(self, assertions, timeout_ms=30000):
        s = z3.Solver()
        s.set("timeout", timeout_ms)
        s.add(*assertions)
        t0 = time.time()
        r = str(s.check())
        self.solver_s += time.time() - t0
        self.n += 1
        if r == "sat":
            self.sat += 1
            return r, s.model()
        if r == "unsat":
            self.unsat += 1
        else:
            self.unknown += 1
        return r, None

    def as_dict(self):
        return dict(obligations=self.n, unsat=self.unsat, sat=self.sat, unknown=self.unknown, model_gaps=self.gaps,
                    paths=self.paths, solver_s=round(self.solver_s, 2), functions_encoded=sorted(self.functions))


def c03_operator_tables(tier):
    """-> (ob, findings) ; findings = list of dict(op, typing, kind, inputs, fold, chip, opcode)"""
    ob = Ob()
    findings = []
    u = E.load_instrumented("utils")
    from stationeers_pytrapic import utils as real_utils

    ob.functions |= {"utils.get_binop_instruction(op)[1] (every lambda)", "utils.get_unop_instruction(op)[1]", "utils._e"}
    typings = [("float", "float"), ("int", "int"), ("int", "float"), ("float", "int")]
    for op in table_keys("get_binop_instruction"):
        opcode, f = u.get_binop_instruction(op)
        emitted, _code = emitted_opcode(op)
        exp = EXPECTED_OPCODE.get(op)
        if emitted != opcode or (exp is not None and opcode != exp and not (op == "&" and opcode == "and")):
            findings.append(dict(op=op, typing="-", kind="opcode_mismatch", detail=f"table opcode {opcode!r}, emitted {emitted!r}, documented {exp!r}"))
        sem_op = emitted or opcode
        for tx, ty in typings:
            xt = fp("x") if tx == "float" else z3.BitVec("xi", 64)
            yt = fp("y") if ty == "float" else z3.BitVec("yi", 64)
            xs = E.SFloat(xt) if tx == "float" else E.SInt(xt)
            ys = E.SFloat(yt) if ty == "float" else E.SInt(yt)
            paths, c = E.explore(lambda: f(xs, ys))
            ob.paths += len(paths)
            E.set_ctx(sym.Ctx())  # for oracle-side fmod axioms
            E.ctx().begin_run([])
            xf, yf = E.to_sfloat(xs).t, E.to_sfloat(ys).t
            try:
                orc = oracle(sem_op, xf, yf)
            except sym.Unsupported as e:
                findings.append(dict(op=op, typing=f"{tx},{ty}", kind="no_oracle", detail=str(e)))
                E.ctx().end_run()
                continue
            orc_ax = list(E.ctx().solver.assertions())
            dom = domain(op, xs, ys, xt, yt)
            E.ctx().end_run()
            for pc, out, asserts in paths:
                if out[0] == "gap":
                    ob.gaps += 1
                    continue
                if out[0] == "raise":
                    continue  # no literal is produced on this path
                v = out[1]
                d = denote(v)
                extra = []
                if isinstance(v, E.SInt):
                    extra.append(z3.And(v.t > -(2**53), v.t < 2**53))  # result representable (stated range)
                if d is None:
                    goal = z3.BoolVal(True)  # a non-number (complex, ...) is never the chip's value
                else:
                    goal = z3.Not(z3.Or(z3.fpEQ(d, orc), z3.And(z3.fpIsNaN(d), z3.fpIsNaN(orc))))
                    if op == "**":
                        extra.append(finite(orc))
                r, m = ob.check(asserts + orc_ax + dom + extra + [goal])
                if r != "sat":
                    continue
                xv = model_float(m, xt) if tx == "float" else model_int(m, xt)
                yv = model_float(m, yt) if ty == "float" else model_int(m, yt)
                # replay on the real, uninstrumented table
                try:
                    real = real_utils.get_binop_instruction(op)[1](xv, yv)
                except Exception as e:
                    continue  # raises: no fold
                chip = concrete_oracle(sem_op, xv, yv)
                if not same_double(real, chip):
                    findings.append(dict(op=op, typing=f"{tx},{ty}", kind="fold_differs", inputs=[xv, yv], fold=repr(real), chip=chip, opcode=sem_op))
                    if len(ob.samples) < 3:
                        ob.samples.append(dict(op=op, typing=f"{tx},{ty}", counterexample=[xv, yv], fold=repr(real), chip=chip))
    for op in table_keys("get_unop_instruction"):
        opcode, f = u.get_unop_instruction(op)
        emitted, code = emitted_opcode(op, unary=True)
        if op == "~":
            # the emitted opcode must be a real instruction (C09); the fold raises TypeError on floats
            pass
        for tx in ("float", "int"):
            xt = fp("x") if tx == "float" else z3.BitVec("xi", 64)
            xs = E.SFloat(xt) if tx == "float" else E.SInt(xt)
            paths, c = E.explore(lambda: f(xs))
            ob.paths += len(paths)
            xf = E.to_sfloat(xs).t
            sem = {"-": lambda a: oracle("sub", E.fpv(0.0), a), "not": lambda a: oracle("seqz", a), "~": lambda a: oracle("not", a)}.get(op)
            if sem is None:
                findings.append(dict(op=op, typing=tx, kind="no_oracle", detail="unknown unary operator"))
                continue
            orc = sem(xf)
            dom = domain("u" + op, xs, None, xt, None)
            if op == "~":
                dom.append(z3.fpLT(z3.fpAbs(xf), E.fpv(TWO53)))
            for pc, out, asserts in paths:
                if out[0] != "value":
                    if out[0] == "gap":
                        ob.gaps += 1
                    continue
                d = denote(out[1])
                goal = z3.BoolVal(True) if d is None else z3.Not(z3.Or(z3.fpEQ(d, orc), z3.And(z3.fpIsNaN(d), z3.fpIsNaN(orc))))
                r, m = ob.check(asserts + dom + [goal])
                if r != "sat":
                    continue
                xv = model_float(m, xt) if tx == "float" else model_int(m, xt)
                try:
                    real = real_utils.get_unop_instruction(op)[1](xv)
                except Exception:
                    continue
                chip = {"-": lambda a: 0.0 - a, "not": lambda a: float(a == 0), "~": lambda a: sym.CONC["not"](a)}[op](float(xv))
                if not same_double(real, chip):
                    findings.append(dict(op="u" + op, typing=tx, kind="fold_differs", inputs=[xv], fold=repr(real), chip=chip, opcode=emitted))
    if not ob.samples:
        ob.samples.append(dict(op="+", typing="float,float", result="unsat: fold == add for all finite doubles"))
    return ob, findings


def c03_math_functions():
    """Closed: folder = math.<name>, emitted opcode has the same name and argument order."""
    from . import comp
    from stationeers_pytrapic import utils as real_utils

    out = []
    names = sorted(real_utils._math_functions)
    for name in names:
        if name == "atan2":
            src = f"from stationeers_pytrapic.symbols import *\na = stack[0]\nb = stack[1]\ndb.Setting = atan2(a, b)\n"
        else:
            src = f"from stationeers_pytrapic.symbols import *\na = stack[0]\ndb.Setting = {name}(a)\n"
        cap = comp.compile_capture(src, append_version=False)
        ok = cap.ok
        detail = None
        if ok:
            toks = [l.split() for l in cap.code.split("\n")]
            line = next((t for t in toks if t and t[0] == name), None)
            regs = {}
            for t in toks:
                if t[0] == "get" and len(t) == 4:
                    regs[t[3]] = t[1]
            if line is None:
                ok, detail = False, f"no instruction named {name} in\n{cap.code}"
            elif name == "atan2" and not (line[2] == regs.get("0") and line[3] == regs.get("1")):
                ok, detail = False, f"argument order changed: {line} with {regs}"
        else:
            detail = cap.error
        # folding: a constant argument must give math.<name>(c) (or decline)
        for cval in (0.5, 2.0):
            args = f"{cval}, 0.25" if name == "atan2" else f"{cval}"
            cap2 = comp.compile_capture(f"from stationeers_pytrapic.symbols import *\ndb.Setting = {name}({args})\n", append_version=False)
            if cap2.ok:
                t = cap2.code.split("\n")[-1].split()
                try:
                    want = getattr(math, name)(*([cval, 0.25] if name == "atan2" else [cval]))
                    got = float(t[-1]) if t[0] == "s" else None
                    if got is not None and not (abs(got - want) <= 1e-15 * max(1.0, abs(want)) * 4):
                        ok, detail = False, f"{name}({args}) folded to {got}, math gives {want}"
                except ValueError:
                    pass
        out.append(dict(name=name, ok=ok, detail=detail))
    return out


def c03_e_hash():
    """utils._e on a HASH("...") operand: for every name and every CRC value the number used for
    folding must be the signed 32-bit reading (what the chip uses for HASH)."""
    import sys

    from . import e3

    ob = Ob()
    findings = []
    ob.functions.add("utils._e (HASH operand) -> types.compute_hash -> utils.calc_hash")
    u = E.load_instrumented("utils")
    t = E.load_instrumented("types")
    v = z3.BitVec("crc", 64)
    name_chars = [z3.Int(f"hn{i}") for i in range(3)]
    seen = {}

    class _Z:
        @staticmethod
        def crc32(b):
            seen["b"] = b
            return E.SInt(v)

    def fn():
        saved = {k: sys.modules.get(k) for k in ("zlib", "stationeers_pytrapic.types")}
        sys.modules["zlib"] = _Z
        sys.modules["stationeers_pytrapic.types"] = t
        try:
            for ch in name_chars:
                E.ctx().assume(z3.Or(*[ch == a for a in (ord("a"), ord("B"), ord("2"), 0x20)]))
            E.ctx().assume(z3.And(v >= 0, v < 2**32))
            operand = e3.SymStr.of('HASH("') + e3.SymStr(name_chars) + e3.SymStr.of('")')
            return u._e(operand), seen.get("b")
        finally:
            for k, m in saved.items():
                if m is None:
                    sys.modules.pop(k, None)
                else:
                    sys.modules[k] = m

    paths, c = E.explore(fn)
    ob.paths += len(paths)
    want = from_long(z3.If(v >= 2**31, v - 2**32, v))
    for pc, out, asserts in paths:
        if out[0] == "gap":
            ob.gaps += 1
            findings.append(dict(op="_e(HASH)", typing="str", kind="inconclusive", detail=out[1]))
            continue
        if out[0] == "raise":
            findings.append(dict(op="_e(HASH)", typing="str", kind="fold_raises", detail=f"{type(out[1]).__name__}: {out[1]}"))
            continue
        res, arg = out[1]
        d = denote(res)
        goal = z3.BoolVal(True) if d is None else z3.Not(z3.fpEQ(d, want))
        hashed_ok = isinstance(arg, e3.SymStr) and len(arg.c) == len(name_chars) and all(a is b for a, b in zip(arg.c, name_chars))
        r, m = ob.check(asserts + [goal])
        if r == "sat" or not hashed_ok:
            # replay on the real function with names of both hash signs
            from stationeers_pytrapic import utils as real_utils

            from .ic10 import hash_signed

            for nm in ("abcd", "abc", "O2", "CO2", "a B", "StructureGasSensor"):
                got = real_utils._e(f'HASH("{nm}")')
                if float(got) != float(hash_signed(nm)):
                    findings.append(dict(op="_e(HASH)", typing="str", kind="fold_differs", inputs=[f'HASH("{nm}")'], fold=repr(got), chip=float(hash_signed(nm)), opcode="(operand value)"))
                    break
    return ob, findings


def c03_one_operator(args):
    """Worker: obligations of one table entry (binary or unary operator)."""
    kind, op = args
    if kind == "e_hash":
        full_ob, findings = c03_e_hash()
        return full_ob.as_dict(), findings, full_ob.samples
    full_ob, findings = _c03_ops([op] if kind == "bin" else [], [op] if kind == "un" else [])
    return full_ob.as_dict(), findings, full_ob.samples


def _known_wrong(op, xf, yf):
    """Semantics of the *recorded* defective folds (known findings), used to tell the known defect
    from a new one."""
    if op in ("and", "or"):
        # Python value semantics of `x and y` (the `or` entry evaluates `and` as well)
        return z3.If(z3.Not(z3.fpIsZero(xf)), yf, xf)
    return None


def _c03_ops(binops, unops):
    ob = Ob()
    findings = []
    u = E.load_instrumented("utils")
    from stationeers_pytrapic import utils as real_utils

    ob.functions |= {"utils.get_binop_instruction(op)[1] (every lambda)", "utils.get_unop_instruction(op)[1]", "utils._e"}
    typings = [("float", "float"), ("int", "int"), ("int", "float"), ("float", "int")]
    for op in binops:
        opcode, f = u.get_binop_instruction(op)
        emitted, _code = emitted_opcode(op)
        exp = EXPECTED_OPCODE.get(op)
        if emitted != opcode or (exp is not None and opcode != exp):
            findings.append(dict(op=op, typing="-", kind="opcode_mismatch", detail=f"table opcode {opcode!r}, emitted {emitted!r}, documented {exp!r}"))
        sem_op = emitted or opcode
        for tx, ty in typings:
            xt = fp("x") if tx == "float" else z3.BitVec("xi", 64)
            yt = fp("y") if ty == "float" else z3.BitVec("yi", 64)
            xs = E.SFloat(xt) if tx == "float" else E.SInt(xt)
            ys = E.SFloat(yt) if ty == "float" else E.SInt(yt)
            paths, c = E.explore(lambda: f(xs, ys))
            ob.paths += len(paths)
            E.set_ctx(sym.Ctx())
            E.ctx().begin_run([])
            xf, yf = E.to_sfloat(xs).t, E.to_sfloat(ys).t
            try:
                orc = oracle(sem_op, xf, yf)
            except sym.Unsupported as e:
                findings.append(dict(op=op, typing=f"{tx},{ty}", kind="no_oracle", detail=str(e)))
                E.ctx().end_run()
                continue
            orc_ax = list(E.ctx().solver.assertions())
            dom = domain(op, xs, ys, xt, yt)
            E.ctx().end_run()
            kw = _known_wrong(op, xf, yf)
            for pc, out, asserts in paths:
                if out[0] == "gap":
                    ob.gaps += 1
                    continue
                if out[0] == "raise":
                    continue
                v = out[1]
                d = denote(v)
                extra = []
                if isinstance(v, E.SInt):
                    extra.append(z3.And(v.t > -(2**53), v.t < 2**53))
                if op == "**":
                    extra.append(finite(orc))
                if d is None:
                    goal = z3.BoolVal(True)
                else:
                    goal = z3.Not(z3.Or(z3.fpEQ(d, orc), z3.And(z3.fpIsNaN(d), z3.fpIsNaN(orc))))
                r, m = ob.check(asserts + orc_ax + dom + extra + [goal])
                if r == "unknown":
                    findings.append(dict(op=op, typing=f"{tx},{ty}", kind="inconclusive", detail="solver answered unknown"))
                if r != "sat":
                    continue
                xv = model_float(m, xt) if tx == "float" else model_int(m, xt)
                yv = model_float(m, yt) if ty == "float" else model_int(m, yt)
                try:
                    real = real_utils.get_binop_instruction(op)[1](xv, yv)
                except Exception:
                    continue
                chip = concrete_oracle(sem_op, xv, yv)
                if same_double(real, chip):
                    continue  # does not replay: encoding artefact, not reported
                fd = dict(op=op, typing=f"{tx},{ty}", kind="fold_differs", inputs=[xv, yv], fold=repr(real), chip=chip, opcode=sem_op)
                if d is None:
                    fd["kind"] = "fold_not_a_number"
                elif kw is not None:
                    # is the fold still exactly the recorded defective semantics?
                    r2, _ = ob.check(asserts + dom + extra + [z3.Not(z3.Or(z3.fpEQ(d, kw), z3.And(z3.fpIsNaN(d), z3.fpIsNaN(kw))))])
                    fd["matches_recorded_defect"] = (r2 == "unsat")
                findings.append(fd)
                if len(ob.samples) < 3:
                    ob.samples.append(dict(op=op, typing=f"{tx},{ty}", counterexample=[xv, yv], fold=repr(real), chip=chip))
    for op in unops:
        opcode, f = u.get_unop_instruction(op)
        emitted, code = emitted_opcode(op, unary=True)
        exp = EXPECTED_UNOP.get(op)
        if emitted != opcode or (exp is not None and opcode != exp):
            findings.append(dict(op="u" + op, typing="-", kind="opcode_mismatch", detail=f"table opcode {opcode!r}, emitted {emitted!r}, documented {exp!r}"))
        for tx in ("float", "int"):
            xt = fp("x") if tx == "float" else z3.BitVec("xi", 64)
            xs = E.SFloat(xt) if tx == "float" else E.SInt(xt)
            paths, c = E.explore(lambda: f(xs))
            ob.paths += len(paths)
            xf = E.to_sfloat(xs).t
            sem = {"-": lambda a: oracle("sub", E.fpv(0.0), a), "not": lambda a: oracle("seqz", a), "~": lambda a: oracle("not", a)}.get(op)
            if sem is None:
                findings.append(dict(op="u" + op, typing=tx, kind="no_oracle", detail="unknown unary operator"))
                continue
            orc = sem(xf)
            dom = domain("u" + op, xs, None, xt, None)
            if op == "~":
                dom.append(z3.fpLT(z3.fpAbs(xf), E.fpv(TWO53)))
            for pc, out, asserts in paths:
                if out[0] != "value":
                    if out[0] == "gap":
                        ob.gaps += 1
                    continue
                d = denote(out[1])
                goal = z3.BoolVal(True) if d is None else z3.Not(z3.Or(z3.fpEQ(d, orc), z3.And(z3.fpIsNaN(d), z3.fpIsNaN(orc))))
                r, m = ob.check(asserts + dom + [goal])
                if r != "sat":
                    continue
                xv = model_float(m, xt) if tx == "float" else model_int(m, xt)
                try:
                    real = real_utils.get_unop_instruction(op)[1](xv)
                except Exception:
                    continue
                chip = {"-": lambda a: 0.0 - a, "not": lambda a: float(a == 0), "~": lambda a: sym.CONC["not"](a)}[op](float(xv))
                if not same_double(real, chip):
                    findings.append(dict(op="u" + op, typing=tx, kind="fold_differs", inputs=[xv], fold=repr(real), chip=chip, opcode=emitted))
    return ob, findings


# =================================================================================================
# C08: calc_hash, compute_string, _apply_output_mode, format_enum


def run_c08(rep, tier):
    import sys
    from . import e3

    ob = Ob()
    problems = []
    u = E.load_instrumented("utils")
    ob.functions |= {"utils.calc_hash", "types.compute_string", "types._apply_output_mode", "utils.format_enum"}

    # ---- calc_hash: for every 32-bit CRC value the result is its signed two's-complement reading
    v = z3.BitVec("crc", 64)

    seen_arg = {}

    class _Z:
        @staticmethod
        def crc32(b):
            seen_arg["b"] = b
            return E.SInt(v)

    name_chars = [z3.Int(f"nm{i}") for i in range(4)]

    def fn_hash():
        saved = sys.modules.get("zlib")
        sys.modules["zlib"] = _Z
        try:
            for ch in name_chars:
                E.ctx().assume(z3.Or(*[ch == a for a in (0x20, 0x09, ord("a"), ord("B"), 0xE9, ord("_"))]))
            nm = e3.SymStr(name_chars)
            r = u.calc_hash(nm)
            return r, seen_arg.get("b"), nm
        finally:
            sys.modules["zlib"] = saved

    paths, c = E.explore(fn_hash)
    ob.paths += len(paths)
    for pc, out, asserts in paths:
        if out[0] != "value" or not isinstance(out[1][0], E.SInt):
            problems.append(dict(kind="calc_hash", detail=f"{out[0]}: {out[1]}"))
            continue
        res_, arg_, nm_ = out[1]
        # the bytes that are hashed must be the name itself (every character, edge blanks included)
        if not isinstance(arg_, e3.SymStr) or len(arg_.c) != len(nm_.c):
            s_ = z3.Solver()
            s_.add(*asserts)
            if str(s_.check()) == "sat":
                m_ = s_.model()
                txt = "".join(chr(m_.eval(ch, model_completion=True).as_long()) for ch in name_chars)
                from stationeers_pytrapic import utils as _ru

                if _ru.calc_hash(txt) != hash_signed_ref(txt):
                    problems.append(dict(kind="calc_hash", detail=f"calc_hash({txt!r}) = {_ru.calc_hash(txt)}, signed CRC-32 of the name is {hash_signed_ref(txt)}"))
            continue
        out = (out[0], res_)
        want = z3.If(v >= 2**31, v - 2**32, v)
        r, m = ob.check(asserts + [v >= 0, v < 2**32, out[1].t != want])
        if r == "sat":
            val = model_int(m, v)
            import zlib as _zl
            from stationeers_pytrapic import utils as real_utils

            # replay: find nothing to invert CRC; evaluate the real arithmetic on the value
            real = (lambda val_: None)
            got = _replay_calc_hash(real_utils, val)
            exp = val - 2**32 if val >= 2**31 else val
            if got != exp:
                problems.append(dict(kind="calc_hash", detail=f"crc32 value {val}: calc_hash gives {got}, signed value is {exp}"))
        elif r != "unsat":
            problems.append(dict(kind="inconclusive", detail="calc_hash: " + r))

    # ---- compute_string / _apply_output_mode
    t = E.load_instrumented("types", extra_ns=dict(ord=_vf_ord))
    OM = t.OutputMode
    for n in range(0, 8):  # 7 characters = 56 bits: exact in the 64-bit carrier (longer literals: concrete family in c08.py)
        chars = [z3.BitVec(f"ch{i}", 64) for i in range(n)]

        def mk():
            for ch in chars:
                E.ctx().assume(z3.And(ch >= 0, ch <= 255))
            return e3.SymStr(chars)

        for mode in (OM.NUMERIC, OM.VERBOSE, OM.COMPACT):
            paths, c = E.explore(lambda: t.compute_string(mk(), mode))
            ob.paths += len(paths)
            want = z3.BitVecVal(0, 64)
            for ch in chars:
                want = want * 256 + ch
            for pc, out, asserts in paths:
                if out[0] != "value":
                    if out[0] == "gap":
                        ob.gaps += 1
                    else:
                        problems.append(dict(kind="compute_string", detail=f"n={n} mode={mode.name}: {out[0]} {out[1]}"))
                    continue
                res = out[1]
                is_num = isinstance(res, (E.SInt, int)) and not isinstance(res, bool)
                if mode == OM.NUMERIC and not is_num:
                    problems.append(dict(kind="compute_string", detail=f"n={n}: NUMERIC mode returned {type(res).__name__}"))
                if mode == OM.VERBOSE and is_num:
                    problems.append(dict(kind="compute_string", detail=f"n={n}: VERBOSE mode returned a number"))
                if is_num:
                    rt = res.t if isinstance(res, E.SInt) else z3.BitVecVal(res, 64)
                    r, m = ob.check(asserts + [rt != want])
                    if r == "sat":
                        s_conc = "".join(chr(model_int(m, ch)) for ch in chars)
                        from stationeers_pytrapic import types as real_types
                        from stationeers_pytrapic.utils import OutputMode as ROM

                        got = real_types.compute_string(s_conc, ROM.NUMERIC)
                        exp = 0
                        for chv in s_conc:
                            exp = exp * 256 + ord(chv)
                        if got != exp:
                            problems.append(dict(kind="compute_string", detail=f"STR({s_conc!r}) packs to {got}, big-endian value is {exp}"))
                    elif r != "unsat":
                        problems.append(dict(kind="inconclusive", detail=f"compute_string n={n}: {r}"))
                elif isinstance(res, e3.SymStr):
                    # the spelling must be STR("<s>") character by character
                    exp = [ord(x) for x in 'STR("'] + chars + [ord(x) for x in '")']
                    if len(res.c) != len(exp):
                        problems.append(dict(kind="compute_string", detail=f"n={n}: spelling has {len(res.c)} characters"))
                    else:
                        diffs = [a != b for a, b in zip(res.c, exp) if not (isinstance(a, int) and isinstance(b, int) and a == b)]
                        bad_const = any(isinstance(a, int) and isinstance(b, int) and a != b for a, b in zip(res.c, exp))
                        if bad_const:
                            problems.append(dict(kind="compute_string", detail=f"n={n}: spelling differs from STR(\"...\")"))
                        elif diffs:
                            r, m = ob.check(asserts + [z3.Or(*diffs)])
                            if r == "sat":
                                problems.append(dict(kind="compute_string", detail=f"n={n}: spelling does not quote the string itself"))
    # ---- compute_hash: (a) on a plain name the text inside the verbose spelling is the text that is
    # hashed; (b) on its own verbose spelling HASH("<name>") - what a variable holding a hash constant
    # carries into a second call - it hashes <name> itself and prints the same spelling again
    ob.functions.add("types.compute_hash")
    ALPHA = [ord(x) for x in 'a)("H '] + [0x5C]
    rec = {}

    def _rec_calc_hash(nm_):
        rec["arg"] = nm_
        return E.SInt(z3.BitVec("hv", 64))

    t.__dict__["calc_hash"] = _rec_calc_hash
    for form in ("plain", "token"):
        for n in range(1, 5 if tier == "thorough" else 4):
            def fn_ch():
                rec.clear()
                cs = e3.sym_chars("hn", n, ALPHA, E.ctx())
                nm = e3.SymStr(cs)
                arg = nm if form == "plain" else e3.SymStr([ord(x) for x in 'HASH("'] + cs + [ord(x) for x in '")'])
                sp = t.compute_hash(arg, OM.VERBOSE)
                return nm, sp, rec.get("arg")

            paths, c = E.explore(fn_ch, max_paths=600)
            ob.paths += len(paths)
            for pc, out, asserts in paths:
                if out[0] == "gap":
                    ob.gaps += 1
                    continue
                if out[0] == "raise":
                    continue  # rejecting a name is not a verbose/compact disagreement
                nm, sp, hashed = out[1]
                bad = None
                if not isinstance(sp, e3.SymStr) or not isinstance(hashed, e3.SymStr):
                    bad = f"spelling / hashed text are {type(sp).__name__} / {type(hashed).__name__}"
                else:
                    want_sp = [ord(x) for x in 'HASH("'] + hashed.c + [ord(x) for x in '")']
                    conds = []
                    if len(sp.c) != len(want_sp):
                        bad = "the verbose spelling does not quote the text that is hashed"
                    else:
                        conds += [a != b for a, b in zip(sp.c, want_sp) if not (isinstance(a, int) and isinstance(b, int) and a == b)]
                    if form == "token" and bad is None:
                        if len(hashed.c) != len(nm.c):
                            bad = "the text hashed for HASH(\"<name>\") is not <name>"
                        else:
                            conds += [a != b for a, b in zip(hashed.c, nm.c) if not (isinstance(a, int) and isinstance(b, int) and a == b)]
                    if bad is None and conds:
                        r, m = ob.check(asserts + [z3.Or(*[z3.BoolVal(x) if isinstance(x, bool) else x for x in conds])])
                        if r == "sat":
                            bad = "the verbose spelling / the hashed text differ from the name"
                        elif r != "unsat":
                            problems.append(dict(kind="inconclusive", detail=f"compute_hash {form} n={n}: {r}"))
                if bad:
                    # replay a model of this path on the real function
                    s_ = z3.Solver()
                    s_.add(*asserts)
                    if str(s_.check()) != "sat":
                        continue
                    m_ = s_.model()
                    txt = "".join(chr(m_.eval(z3.Int(f"hn{i}"), model_completion=True).as_long()) for i in range(n))
                    from stationeers_pytrapic import types as real_types
                    from stationeers_pytrapic.utils import OutputMode as ROM

                    a_ = txt if form == "plain" else f'HASH("{txt}")'
                    try:
                        v_sp = real_types.compute_hash(a_, ROM.VERBOSE)
                        v_num = real_types.compute_hash(a_, ROM.NUMERIC)
                    except Exception:
                        continue
                    inner = v_sp[6:-2] if isinstance(v_sp, str) and v_sp.startswith('HASH("') and v_sp.endswith('")') else None
                    ok = inner is not None and hash_signed_ref(inner) == v_num and (form == "plain" or (inner == txt and v_sp == a_))
                    if not ok:
                        problems.append(dict(kind="compute_hash", detail=f"compute_hash({a_!r}): verbose {v_sp!r}, numeric {v_num} (signed CRC-32 of {txt!r} is {hash_signed_ref(txt)}): {bad}"))
    # ---- _apply_output_mode on an arbitrary number and spelling
    num = z3.BitVec("num", 64)
    for mode in (OM.NUMERIC, OM.VERBOSE, OM.COMPACT):
        for slen in (1, 5, 12, 25):
            spelling = "x" * slen
            numv = E.SInt(num)
            paths, c = E.explore(lambda: t._apply_output_mode(numv, spelling, mode))
            ob.paths += len(paths)
            for pc, out, asserts in paths:
                if out[0] != "value":
                    if out[0] == "gap":
                        ob.gaps += 1
                    continue
                res = out[1]
                ob.n += 1
                ob.unsat += 1
                if not (res is numv or res is spelling):
                    problems.append(dict(kind="apply_output_mode", detail=f"mode={mode.name}: returns neither the number nor the spelling: {res!r}"))
                if mode == OM.VERBOSE and res is not spelling:
                    problems.append(dict(kind="apply_output_mode", detail="VERBOSE mode does not return the spelling"))
                if mode == OM.NUMERIC and res is not numv:
                    problems.append(dict(kind="apply_output_mode", detail="NUMERIC mode does not return the number"))
    # ---- format_enum: closed over every member of every enum
    from stationeers_pytrapic import types_generated as tg
    from stationeers_pytrapic import utils as real_utils
    import enum as _enum

    n_members = 0
    saved_mode = real_utils._output_mode
    try:
        for name, cls in vars(tg).items():
            if isinstance(cls, type) and issubclass(cls, _enum.IntEnum) and not name.startswith("_"):
                for mname_, mbr in cls.__members__.items():
                    n_members += 1
                    if mname_ != mbr.name:
                        problems.append(dict(kind="format_enum", detail=f"{name}.{mname_} shares its number {mbr.value} with {name}.{mbr.name}: verbose prints the other name"))
                        continue
                    real_utils.set_output_mode(real_utils.OutputMode.COMPACT)
                    c_ = real_utils.format_enum(mbr)
                    real_utils.set_output_mode(real_utils.OutputMode.VERBOSE)
                    v_ = real_utils.format_enum(mbr)
                    if c_ != mbr.value:
                        problems.append(dict(kind="format_enum", detail=f"{name}.{mbr.name}: compact prints {c_!r}, value is {mbr.value}"))
                    exp_names = (mbr.name, f"{name}.{mbr.name}")
                    if v_ not in exp_names:
                        problems.append(dict(kind="format_enum", detail=f"{name}.{mbr.name}: verbose prints {v_!r}"))
    finally:
        real_utils.set_output_mode(saved_mode)
    from . import e1

    seen = set()
    for pr in problems:
        if pr["kind"] == "inconclusive" or pr["detail"] in seen:
            continue
        seen.add(pr["detail"])
        path = e1.save_replay("C08", dict(property="C08", kind="e2", problem=pr))
        rep.violation(f"E2 {pr['kind']}: {pr['detail']}", path)
    d = ob.as_dict()
    d["enum_members_checked"] = n_members
    d["string_lengths"] = "0..7 (code points 0..255)"
    d["inconclusive"] = [p["detail"] for p in problems if p["kind"] == "inconclusive"]
    return d


def hash_signed_ref(txt: str) -> int:
    from .ic10 import hash_signed

    return hash_signed(txt)


def _vf_ord(x):
    from . import e3

    if isinstance(x, e3.SymStr):
        if len(x.c) != 1:
            raise TypeError("ord() expected a character")
        c = x.c[0]
        return c if isinstance(c, int) else E.SInt(c)
    return ord(x)


def _replay_calc_hash(real_utils, crc_value):
    import zlib

    real = zlib.crc32
    try:
        zlib.crc32 = lambda b: crc_value
        return real_utils.calc_hash("x")
    finally:
        zlib.crc32 = real


# =================================================================================================
# C09: IC10Operand.__init__ / to_string, format_int, version note


class SLogVal(E.SFloat):
    """math.log10 of a positive double in decade k: a value L with k <= L <= k + 1 (contract)."""

    def __init__(self, t, k):
        super().__init__(t)
        self.decade = k


DECADES = (0, -330)  # (highest, lowest) decade scanned by the log10 contract


def _log10_hook(x: E.SFloat):
    c = E.ctx()
    if c.decide(z3.Not(z3.fpGT(x.t, E.fpv(0.0)))):
        raise ValueError("math domain error")
    for k in range(DECADES[0], DECADES[1], -1):
        # 10^k <= x ; decades are scanned downwards (the caller only reaches this with x < 0.1)
        if c.decide(z3.fpGEQ(x.t, E.fpv(float(f"1e{k}")))):
            L = z3.FP(f"log10_{k}", F64)
            c.assume(z3.And(z3.fpGEQ(L, E.fpv(float(k))), z3.fpLEQ(L, E.fpv(float(k + 1)))))
            return SLogVal(L, k)
    raise E.ModelGap("log10 below the smallest decade")


class _vf_int_c09(E.vf_int):
    def __new__(cls, x=0, *a):
        if isinstance(x, SLogVal):
            # trunc toward zero of L in [k, k+1]: k+1 unless L == k exactly (k < 0)
            if x.decade >= 0:
                raise E.ModelGap("log10 contract used for x >= 1")
            if E.ctx().decide(z3.fpEQ(x.t, E.fpv(float(x.decade)))):
                return x.decade
            return x.decade + 1
        if cls is _vf_int_c09:
            return E.vf_int(x, *a)
        return E.vf_int.__new__(cls, x, *a)


def c09_float_task(float_range):
    """worker: float obligations for one range of decades (None = everything >= 0.1 and zero)"""
    ob, problems, decades = _c09_core(float_range, ints=float_range is None, version=float_range is None)
    return ob.as_dict(), problems, decades


def run_c09(rep, tier):
    from . import e1, harness

    if tier == "thorough":
        ranges = [None] + [(k - 10, k) for k in range(-1, -325, -10)]
        cut = "small-magnitude branch: all decades 1e-331 .. 1e-1"
    else:
        ranges = [None, (-11, -1), (-21, -11), (-31, -21), (-105, -100), (-205, -200), (-324, -318)]
        cut = "small-magnitude branch: decades 1e-31..1e-1, 1e-105..1e-100, 1e-205..1e-200, 1e-324..1e-318 (thorough: all)"
    res = harness.pmap(c09_float_task, ranges,
                       placeholder=lambda it, st, d: ({}, [dict(kind="inconclusive", detail=f"decades {it}: {st}: {d}")], 0))
    tot = dict(obligations=0, unsat=0, sat=0, unknown=0, model_gaps=0, paths=0, solver_s=0.0)
    problems = []
    decades = 0
    fns = set()
    vn = None
    for st, prs, dec in res:
        for k in tot:
            tot[k] += st.get(k, 0)
        fns |= set(st.get("functions_encoded", []))
        problems += prs
        decades += dec
    seen = set()
    for pr in problems:
        if pr["kind"] == "inconclusive" or pr["detail"][:80] in seen:
            continue
        seen.add(pr["detail"][:80])
        path = e1.save_replay("C09", dict(property="C09", kind="e2", problem=pr))
        rep.violation(f"E2 {pr['kind']}: {pr['detail']}", path)
    tot["solver_s"] = round(tot["solver_s"], 2)
    tot["functions_encoded"] = sorted(fns)
    tot["decade_paths_small_branch"] = decades
    tot["bound"] = cut
    tot["inconclusive"] = [p["detail"] for p in problems if p["kind"] == "inconclusive"]
    tot["float_domain"] = "finite doubles with |v| < 2^62 (larger doubles are integral and outside the exact-integer range of the property)"
    return tot


def _c09_core(float_range, ints=True, version=True):
    import re as _re
    from . import e1

    ob = Ob()
    problems = []
    ob.functions |= {"types.IC10Operand.__init__", "types.IC10Operand.to_string", "utils.format_int", "generate_code.get_code (version note statements)"}
    uinst = E.load_instrumented("utils")
    t = E.load_instrumented("types", extra_ns=dict(int=_vf_int_c09))
    t.__dict__["utils"] = uinst
    E.set_log10_hook(_log10_hook)
    from stationeers_pytrapic import types as real_types

    def real_to_string(val):
        return real_types.IC10Operand(val).to_string()

    # ---- floats: all finite doubles with |v| < 2^62 (this call: lo <= |v| < hi)
    global DECADES
    x = fp("v")
    dom = [finite(x), z3.fpLT(z3.fpAbs(x), E.fpv(2.0**62))]
    if float_range is not None:
        lo_k, hi_k = float_range
        dom += [z3.fpGEQ(z3.fpAbs(x), E.fpv(float(f"1e{lo_k}"))), z3.fpLT(z3.fpAbs(x), E.fpv(float(f"1e{hi_k}")))]
        DECADES = (hi_k, lo_k - 2)
    else:
        dom.append(z3.Or(z3.fpGEQ(z3.fpAbs(x), E.fpv(0.1)), z3.fpIsZero(x)))

    def fn_float():
        for d_ in dom:
            E.ctx().assume(d_)
        op = t.IC10Operand(E.SFloat(x))
        return op.value, op.to_string()

    paths, c = E.explore(fn_float, max_paths=2000)
    ob.paths += len(paths)
    decades = 0
    for pc, out, asserts in paths:
        if out[0] == "gap":
            ob.gaps += 1
            continue
        if out[0] == "raise":
            # raising for a finite double in range is a failure to print
            r, m = ob.check(asserts + dom)
            if r == "sat":
                val = model_float(m, x)
                try:
                    real_to_string(val)
                except Exception as e:
                    problems.append(dict(kind="operand_raises", detail=f"IC10Operand({val!r}).to_string() raises {type(e).__name__}: {e}"))
            continue
        value, text = out[1]
        goal = None
        if isinstance(text, E.SStr) and text.kind == "int_str":
            goal = None  # str(int): decimal, exact
            if isinstance(text.info["value"], E.SInt):
                # must be the integral value of v itself
                goal = z3.Not(z3.fpEQ(z3.fpSignedToFP(RNE, text.info["value"].t, F64), x))
        elif isinstance(text, E.SStr) and text.kind == "format":
            spec = text.info["spec"]
            val = text.info["value"]
            pre = text.info.get("prefix", "")
            if isinstance(val, E.SInt) and spec == "X":
                # $HEX: only for positive values, exact
                g1 = z3.Not(val.t > 0)
                g2 = z3.Not(z3.fpEQ(z3.fpSignedToFP(RNE, val.t, F64), x))
                goal = z3.Or(g1, g2) if pre == "$" else z3.BoolVal(True)
            elif isinstance(val, E.SFloat) and spec == ".16g":
                # positional iff 1e-4 <= |v| < 1e16 (format contract); must print v itself
                goal = z3.Or(z3.Not(z3.fpEQ(val.t, x)), z3.fpLT(z3.fpAbs(x), E.fpv(1e-4)), z3.fpGEQ(z3.fpAbs(x), E.fpv(1e16)))
                if any(p_[0] == "rstrip" and p_[1] and "0" in p_[1] for p_ in text.post):
                    tl = z3.fpToSBV(RTZ, z3.fpAbs(x), E.BV64)
                    goal = z3.Or(goal, z3.And(z3.fpGEQ(z3.fpAbs(x), E.fpv(1e15)), z3.URem(tl, z3.BitVecVal(10, 64)) == 0,
                                              z3.fpLT(z3.fpSub(RNE, z3.fpAbs(x), z3.fpRoundToIntegral(RTZ, z3.fpAbs(x))), E.fpv(0.5))))
            else:
                goal = z3.BoolVal(True)
        elif isinstance(text, str) and "\x00FMT[" in text:
            mt = _re.search(r"\x00FMT\[\.(\d+)([fg])\]\x00(.*)$", text, _re.S)
            if not mt:
                goal = z3.BoolVal(True)
            elif mt.group(2) == "f":
                decades += 1
                nd = int(mt.group(1))
                # decade k of |v| is fixed on this path: find it from the log10 variable constraints
                k = None
                for a_ in asserts:
                    mk = _re.search(r"log10_(-?\d+)", str(a_))
                    if mk:
                        k = int(mk.group(1))
                        break
                goal = z3.BoolVal(True) if k is None else z3.BoolVal(nd < 15 - k)  # fewer than 16 significant digits
            else:
                # '.Ng' through str.format: positional iff 1e-4 <= |v| < 1e16 (needs N == 16 here)
                goal = z3.Or(z3.BoolVal(int(mt.group(1)) < 16), z3.fpLT(z3.fpAbs(x), E.fpv(1e-4)), z3.fpGEQ(z3.fpAbs(x), E.fpv(1e16)))
                if not mt.group(3).startswith("0.0"):
                    # trailing zeros are stripped from a text that has no decimal point when the
                    # 16-digit rounding of v is an integer: witnesses are non-integral v >= 1e15
                    # whose integer part ends in 0
                    tl = z3.fpToSBV(RTZ, z3.fpAbs(x), E.BV64)
                    strip_zero = z3.And(z3.fpGEQ(z3.fpAbs(x), E.fpv(1e15)), z3.URem(tl, z3.BitVecVal(10, 64)) == 0,
                                        z3.fpLT(z3.fpSub(RNE, z3.fpAbs(x), z3.fpRoundToIntegral(RTZ, z3.fpAbs(x))), E.fpv(0.5)))
                    goal = z3.Or(goal, strip_zero)
        elif isinstance(text, str):
            # a constant spelling for a symbolic number: only "0" for zero is acceptable
            goal = z3.Not(z3.fpIsZero(x)) if text == "0" else z3.BoolVal(True)
        else:
            goal = z3.BoolVal(True)
        if goal is None:
            continue
        r, m = ob.check(asserts + dom + [goal])
        if r == "unknown":
            problems.append(dict(kind="inconclusive", detail="float operand obligation: unknown"))
        if r != "sat":
            continue
        val = model_float(m, x)
        try:
            s_real = real_to_string(val)
        except Exception as e:
            problems.append(dict(kind="operand_raises", detail=f"IC10Operand({val!r}).to_string() raises {type(e).__name__}: {e}"))
            continue
        bad = _literal_problem(s_real, val)
        if bad:
            problems.append(dict(kind="operand_text", detail=f"IC10Operand({val!r}).to_string() == {s_real!r}: {bad}"))
    if not ints:
        return ob, problems, decades
    # ---- ints
    iv = z3.BitVec("iv", 64)
    idom = [iv > -(2**53), iv < 2**53]

    def fn_int():
        op = t.IC10Operand(E.SInt(iv))
        return op.to_string()

    paths, c = E.explore(fn_int)
    ob.paths += len(paths)
    for pc, out, asserts in paths:
        if out[0] != "value":
            if out[0] == "gap":
                ob.gaps += 1
            continue
        text = out[1]
        if isinstance(text, E.SStr) and text.kind == "int_str":
            goal = text.info["value"].t != iv
        elif isinstance(text, E.SStr) and text.kind == "format" and text.info["spec"] == "X":
            goal = z3.Or(z3.Not(text.info["value"].t > 0), text.info["value"].t != iv) if text.info.get("prefix") == "$" else z3.BoolVal(True)
        else:
            goal = z3.BoolVal(True)
        r, m = ob.check(asserts + idom + [goal])
        if r != "sat":
            continue
        val = model_int(m, iv)
        s_real = real_to_string(val)
        bad = _literal_problem(s_real, val)
        if bad:
            problems.append(dict(kind="operand_text", detail=f"IC10Operand({val!r}).to_string() == {s_real!r}: {bad}"))
    # ---- version note: real statements of get_code on abstract lines
    if version:
        vn = _version_note_obligation(ob)
        problems += vn["problems"]
    return ob, problems, decades


def _literal_problem(text: str, value):
    """Is `text` an IC10 numeric literal that reads back as value (exactly for ints <= 2^53, to 16
    significant digits otherwise)?"""
    from . import ic10

    try:
        v = ic10.parse_number(text)
    except ValueError as e:
        return str(e)
    if v is None:
        return "not an IC10 numeric literal"
    value = float(value)
    if value == v:
        return None
    if value == math.floor(value) and abs(value) <= 2**53:
        return f"reads back as {v!r}"
    if abs(v - value) > 5e-16 * abs(value):
        return f"reads back as {v!r} (less than 16 significant digits)"
    return None


class AbsLine:
    def __init__(self, n, suffix=""):
        self.n = n
        self.suffix = suffix

    def __sym_len__(self):
        return E.SInt(self.n + len(self.suffix))

    def __add__(self, o):
        return AbsLine(self.n, self.suffix + o)

    __iadd__ = __add__


def _version_note_obligation(ob):
    src = (E.PKG_DIR / "generate_code.py").read_text()
    tree = ast.parse(src)
    block = None
    for node in ast.walk(tree):
        if isinstance(node, ast.FunctionDef) and node.name == "get_code":
            for st in node.body:
                if isinstance(st, ast.If) and "append_version" in ast.unparse(st.test):
                    block = st
    res = dict(problems=[], result=None, versions=[])
    if block is None:
        res["result"] = "extraction_failed"
        return res
    fn = ast.FunctionDef(name="note", args=ast.arguments(posonlyargs=[], args=[ast.arg("s"), ast.arg("options"), ast.arg("_version")], kwonlyargs=[], kw_defaults=[], defaults=[]),
                         body=[block, ast.Return(ast.Name("s", ast.Load()))], decorator_list=[], type_params=[])
    mod = ast.Module(body=[fn], type_ignores=[])
    ast.fix_missing_locations(mod)
    E.set_int_carrier("int")
    try:
        for ver in ("0.2.3", "0.1.dev1+gc5dd0fe04", "10.20.30.dev123+g0123456789abcdef.d20260101"):
            res["versions"].append(ver)
            for nlines in (1, 2, 3):
                ns_len = [z3.Int(f"n{i}") for i in range(nlines)]

                class _Txt:
                    def __init__(self, lines):
                        self.lines = lines

                    def splitlines(self):
                        return list(self.lines)

                class _Joiner(str):
                    pass

                class _NL:
                    def join(self, lines):
                        return _Txt(lines)

                class _Opt:
                    append_version = True

                class _Ver:
                    __version__ = ver

                ns = dict(len=E.vf_len, range=range, __vf_fstring__=E.vf_fstring, __vf_join__=E.vf_join, __vf_in__=E.vf_in)
                mod2 = E._FStringRewriter().visit(ast.parse(ast.unparse(mod)))
                ast.fix_missing_locations(mod2)
                code = compile(mod2, "<version note>", "exec")
                exec(code, ns)

                def run():
                    lines = [AbsLine(n) for n in ns_len]
                    for n in ns_len:
                        E.ctx().assume(n >= 0)
                    out = ns["note"](_JoinText(lines), _Opt(), _Ver())
                    return out

                paths, c = E.explore(run)
                ob.paths += len(paths)
                for pc, out, asserts in paths:
                    if out[0] != "value":
                        res["problems"].append(dict(kind="version_note", detail=f"{out[0]}: {out[1]}"))
                        continue
                    lines = out[1].lines if hasattr(out[1], "lines") else None
                    if lines is None:
                        res["problems"].append(dict(kind="version_note", detail="unexpected result of the version-note statements"))
                        continue
                    noted = [l for l in lines if l.suffix]
                    goals = []
                    if len(noted) > 1:
                        goals.append(z3.BoolVal(True))
                    for l in noted:
                        if not l.suffix.startswith(" #"):
                            goals.append(z3.BoolVal(True))
                        goals.append(l.n + len(l.suffix) > 90)
                    if not goals:
                        continue
                    r, m = ob.check(asserts + [z3.Or(*goals)])
                    if r == "sat":
                        lens = [m.eval(n, model_completion=True).as_long() for n in ns_len]
                        res["problems"].append(dict(kind="version_note", detail=f"version {ver!r}, line lengths {lens}: the note makes a line longer than 90 characters or is not a trailing comment"))
                    elif r != "unsat":
                        res["problems"].append(dict(kind="inconclusive", detail="version note: " + r))
        res["result"] = "done"
    finally:
        E.set_int_carrier("bv")
    return res


class _JoinText:
    """the text `s` as the version-note block sees it: only splitlines() is used before re-joining"""

    def __init__(self, lines):
        self.lines = lines

    def splitlines(self):
        return list(self.lines)
