"""E3: symbolic strings for the real string-processing statements.

A SymStr is a Python list of code points, each a concrete int or a z3 Int constant constrained to a
stated alphabet; its length is concrete.  The str methods used by the code under analysis are
implemented over such lists with Python's semantics; whenever the control flow of a method depends on
a symbolic character the method asks Ctx.decide (path exploration by re-execution, same driver as
E2).  Lengths are concrete per case, so a finished exploration is exhaustive for that shape.
"""
from __future__ import annotations

import builtins

import z3

from . import e2core as E
from . import sym

# Python's str.isspace() set and str.splitlines() boundaries (Unicode), restricted to what the
# alphabets below can contain
SPACE = {0x09, 0x0A, 0x0B, 0x0C, 0x0D, 0x1C, 0x1D, 0x1E, 0x1F, 0x20, 0x85, 0xA0, 0x1680, 0x2028, 0x2029, 0x202F, 0x205F, 0x3000} | set(range(0x2000, 0x200B))
LINEBREAK = {0x0A, 0x0B, 0x0C, 0x0D, 0x1C, 0x1D, 0x1E, 0x85, 0x2028, 0x2029}


def _is_sym(c):
    return not isinstance(c, int)


# Declared domains of symbolic code points: whoever introduces a symbol together with the solver
# constraint "v is one of alpha" records alpha here; equality / membership tests that the domain
# already decides are answered without a solver call (sound: the constraint is on the solver).
_DOM: dict = {}


def declare_domain(v, alpha):
    _DOM[v.get_id()] = (v, frozenset(alpha))


def dom(c):
    if not _is_sym(c):
        return frozenset([c])
    d = _DOM.get(c.get_id())
    return d[1] if d is not None and d[0].eq(c) else None


def ceq(a, b) -> bool:
    """code point equality -> Python bool (decides if symbolic)"""
    if not _is_sym(a) and not _is_sym(b):
        return a == b
    da, db = dom(a), dom(b)
    if da is not None and db is not None:
        if da.isdisjoint(db):
            return False
        if len(da) == 1 and da == db:
            return True
    return E.ctx().decide(a == b)


def cin(c, cls) -> bool:
    if not _is_sym(c):
        return c in cls
    d = dom(c)
    if d is not None:
        if d.isdisjoint(cls):
            return False
        if d <= set(cls):
            return True
    return E.ctx().decide(z3.Or(*[c == k for k in sorted(cls)])) if cls else False


class SymStr:
    def __init__(self, chars):
        self.c = list(chars)

    # -- construction helpers
    @staticmethod
    def of(x):
        if isinstance(x, SymStr):
            return x
        if isinstance(x, str):
            return SymStr([ord(ch) for ch in x])
        if isinstance(x, (bytes, bytearray)):
            return SymStr(list(x))
        raise E.ModelGap(f"SymStr.of({type(x).__name__})")

    def concrete(self):
        return all(not _is_sym(c) for c in self.c)

    def to_str(self):
        return "".join(chr(c) for c in self.c)

    def __repr__(self):
        return "SymStr(" + "".join(chr(c) if not _is_sym(c) else "?" for c in self.c) + ")"

    # -- basic protocol
    def __len__(self):
        return len(self.c)

    def __iter__(self):
        return (SymStr([c]) for c in self.c)

    def __getitem__(self, i):
        if isinstance(i, slice):
            return SymStr(self.c[i])
        if isinstance(i, int):
            return SymStr([self.c[i]])
        raise E.ModelGap("symbolic index into string")

    def __add__(self, o):
        return SymStr(self.c + SymStr.of(o).c)

    def __radd__(self, o):
        return SymStr(SymStr.of(o).c + self.c)

    def __mul__(self, n):
        if not isinstance(n, int):
            raise E.ModelGap("string repeated a symbolic number of times")
        return SymStr(self.c * n)

    __rmul__ = __mul__

    # "identity": symbolic strings are used as dictionary keys only where distinct objects are known
    # to be distinct strings (label names assumed pairwise different).  "length": every string of a
    # given length hashes alike, so dict / set operations fall back on __eq__, which decides
    # symbolically (sound for code that de-duplicates or looks up symbolic strings).
    HASH_MODE = "identity"

    def __hash__(self):
        if SymStr.HASH_MODE == "length":
            return hash(("SymStr", len(self.c)))
        if self.concrete():
            return hash(self.to_str())
        return id(self)

    def equals(self, o) -> bool:
        o = SymStr.of(o) if isinstance(o, (str, SymStr)) else None
        if o is None or len(o) != len(self):
            return False
        for a, b in zip(self.c, o.c):
            if not ceq(a, b):
                return False
        return True

    def __eq__(self, o):
        return self.equals(o)

    def __ne__(self, o):
        return not self.equals(o)

    def __bool__(self):
        return len(self.c) > 0

    # -- searching
    def _match_at(self, i, needle) -> bool:
        if i + len(needle) > len(self.c):
            return False
        for k, b in enumerate(needle):
            if not ceq(self.c[i + k], b):
                return False
        return True

    def find(self, sub, start=0):
        n = SymStr.of(sub).c
        if not n:
            return start
        for i in range(start, len(self.c) - len(n) + 1):
            if self._match_at(i, n):
                return i
        return -1

    def __contains__(self, sub):
        return self.find(sub) >= 0

    def startswith(self, p):
        if isinstance(p, tuple):
            return any(self.startswith(x) for x in p)
        return self._match_at(0, SymStr.of(p).c)

    def endswith(self, p):
        n = SymStr.of(p).c
        if len(n) > len(self.c):
            return False
        return self._match_at(len(self.c) - len(n), n)

    # -- stripping / splitting
    def _strip_set(self, chars):
        if chars is None:
            return SPACE
        return {ord(ch) for ch in chars}

    def lstrip(self, chars=None):
        cls = self._strip_set(chars)
        i = 0
        while i < len(self.c) and cin(self.c[i], cls):
            i += 1
        return SymStr(self.c[i:])

    def rstrip(self, chars=None):
        cls = self._strip_set(chars)
        j = len(self.c)
        while j > 0 and cin(self.c[j - 1], cls):
            j -= 1
        return SymStr(self.c[:j])

    def strip(self, chars=None):
        return self.lstrip(chars).rstrip(chars)

    def split(self, sep=None, maxsplit=-1):
        if sep is None:
            out, cur = [], []
            for ch in self.c:
                if cin(ch, SPACE):
                    if cur:
                        out.append(SymStr(cur))
                        cur = []
                else:
                    cur.append(ch)
            if cur:
                out.append(SymStr(cur))
            if maxsplit >= 0:
                raise E.ModelGap("split(None, maxsplit)")
            return out
        n = SymStr.of(sep).c
        if not n:
            raise ValueError("empty separator")
        out = []
        i = 0
        start = 0
        while i <= len(self.c) - len(n):
            if (maxsplit < 0 or len(out) < maxsplit) and self._match_at(i, n):
                out.append(SymStr(self.c[start:i]))
                i += len(n)
                start = i
            else:
                i += 1
        out.append(SymStr(self.c[start:]))
        return out

    def splitlines(self, keepends=False):
        out = []
        cur = []
        i = 0
        n = len(self.c)
        while i < n:
            ch = self.c[i]
            if cin(ch, LINEBREAK):
                # \r\n counts as one boundary
                if ceq(ch, 0x0D) and i + 1 < n and ceq(self.c[i + 1], 0x0A):
                    i += 1
                out.append(SymStr(cur))
                cur = []
            else:
                cur.append(ch)
            i += 1
        if cur:
            out.append(SymStr(cur))
        return out

    def replace(self, old, new, count=-1):
        o = SymStr.of(old).c
        nw = SymStr.of(new).c
        if not o:
            raise E.ModelGap("replace of empty string")
        if len(o) == 1 and len(nw) == 1 and count < 0 and not _is_sym(o[0]) and not _is_sym(nw[0]):
            # character-for-character substitution: no fork, the result character is an if-then-else
            res = []
            for c in self.c:
                if not _is_sym(c):
                    res.append(nw[0] if c == o[0] else c)
                    continue
                d = dom(c)
                if d is not None and o[0] not in d:
                    res.append(c)
                    continue
                t = z3.If(c == o[0], z3.IntVal(nw[0]), c)
                if d is not None:
                    declare_domain(t, (d - {o[0]}) | {nw[0]})
                res.append(t)
            return SymStr(res)
        out = []
        i = 0
        done = 0
        while i < len(self.c):
            if (count < 0 or done < count) and self._match_at(i, o):
                out += nw
                i += len(o)
                done += 1
            else:
                out.append(self.c[i])
                i += 1
        return SymStr(out)

    def join(self, parts):
        out = []
        for k, p in enumerate(parts):
            if k:
                out += self.c
            out += SymStr.of(p).c
        return SymStr(out)

    def lower(self):
        if self.concrete():
            return SymStr.of(self.to_str().lower())
        raise E.ModelGap("lower() of a symbolic string")

    def encode(self, *a):
        return self

    def decode(self, *a):
        return self

    def ljust(self, w, fill=" "):
        return SymStr(self.c + [ord(fill)] * max(0, w - len(self.c)))


def sym_chars(prefix, n, alphabet, ctx):
    """n fresh symbolic code points constrained to ``alphabet`` (iterable of ints)."""
    alpha = sorted(set(alphabet))
    out = []
    for i in range(n):
        v = z3.Int(f"{prefix}{i}")
        ctx.solver.add(z3.Or(*[v == a for a in alpha]))
        declare_domain(v, alpha)
        out.append(v)
    return out


# shadow builtins for string code


def vf_hasattr(obj, name):
    if isinstance(name, SymStr):
        if name.concrete():
            return builtins.hasattr(obj, name.to_str())
        for attr in dir(obj):
            if name.equals(attr):
                return True
        return False
    return builtins.hasattr(obj, name)


def vf_setattr(obj, name, value):
    if isinstance(name, SymStr):
        if name.concrete():
            return builtins.setattr(obj, name.to_str(), value)
        for attr in dir(obj):
            if name.equals(attr):
                return builtins.setattr(obj, attr, value)
        raise AttributeError("symbolic attribute name")
    return builtins.setattr(obj, name, value)


def vf_len(x):
    return builtins.len(x)


def vf_isinstance_str(obj, cls):
    if isinstance(obj, SymStr):
        if cls is str or (isinstance(cls, tuple) and str in cls):
            return True
        return False
    return builtins.isinstance(obj, cls)


# -------------------------------------------------------------------------------------------------
# a proxy for the `re` module, for the one pattern shape the code under analysis builds:
#     r"\b{}\b".format(re.escape(label))
# re.escape(SymStr) yields a marker (a real str, because str.format insists on one) that refers to the
# symbolic literal; search / sub interpret "\b<marker>\b" over SymStr subjects with Python's meaning of
# \b (between a word character [A-Za-z0-9_] and a non-word character or the string edge).

WORD = set(range(ord("a"), ord("z") + 1)) | set(range(ord("A"), ord("Z") + 1)) | set(range(ord("0"), ord("9") + 1)) | {ord("_")}


class ReProxy:
    def __init__(self):
        import re as _re

        self._re = _re
        self._lits = {}

    def escape(self, s):
        if isinstance(s, SymStr):
            k = len(self._lits)
            self._lits[k] = s
            return f"\x00LIT{k}\x00"
        return self._re.escape(s)

    def _parse(self, pattern):
        m = self._re.fullmatch(r"(\\b)?\x00LIT(\d+)\x00(\\b)?", pattern)
        if not m:
            return None
        return bool(m.group(1)), self._lits[int(m.group(2))], bool(m.group(3))

    @staticmethod
    def _isword(subject, i) -> bool:
        if i < 0 or i >= len(subject.c):
            return False
        return cin(subject.c[i], WORD)

    def _match_at(self, subject, i, lb, lit, rb) -> bool:
        n = len(lit.c)
        if n == 0 or i + n > len(subject.c):
            return False
        if not subject._match_at(i, lit.c):
            return False
        if lb and self._isword(subject, i - 1) == self._isword(subject, i):
            return False
        if rb and self._isword(subject, i + n - 1) == self._isword(subject, i + n):
            return False
        return True

    def search(self, pattern, subject, *a):
        p = self._parse(pattern) if isinstance(pattern, str) else None
        if p is None or not isinstance(subject, SymStr):
            if isinstance(subject, SymStr):
                if subject.concrete() and isinstance(pattern, str) and "\x00" not in pattern:
                    return self._re.search(pattern, subject.to_str(), *a)
                raise E.ModelGap("regular expression outside the modelled shape")
            if p is not None:
                subject = SymStr.of(subject)
            else:
                return self._re.search(pattern, subject, *a)
        lb, lit, rb = p
        for i in range(len(subject.c) - len(lit.c) + 1):
            if self._match_at(subject, i, lb, lit, rb):
                return (i, i + len(lit.c))
        return None

    def sub(self, pattern, repl, subject, count=0):
        p = self._parse(pattern) if isinstance(pattern, str) else None
        if p is None:
            if isinstance(subject, SymStr):
                raise E.ModelGap("regular expression outside the modelled shape")
            return self._re.sub(pattern, repl, subject, count)
        subject = SymStr.of(subject)
        lb, lit, rb = p
        out = []
        i = 0
        n = len(lit.c)
        r = SymStr.of(repl).c
        while i < len(subject.c):
            if i + n <= len(subject.c) and self._match_at(subject, i, lb, lit, rb):
                out += r
                i += n
            else:
                out.append(subject.c[i])
                i += 1
        return SymStr(out)

    def __getattr__(self, name):
        return getattr(self._re, name)
