"""Fixed witness programs: one per known finding / generator gate.  Each demonstrates a construct the
pinned tree miscompiles; the seeded families never emit these constructs (vf.gen.GATES), and the
checks re-run the witnesses to print KNOWN-FINDING lines while they still fail."""

HDR = "from stationeers_pytrapic.symbols import *\n"

WITNESS = {
    # ---- C01 family -----------------------------------------------------------------------------
    "for_target_reuse": dict(
        src=HDR + """
for i in range(2):
    db.Setting = i
for i in range(3, 5):
    d0.Setting = i
""",
        what="second `for i` loop in one scope: body reads the first loop's register",
    ),
    "name_alias": dict(
        src=HDR + """
x = d0.Setting
y = x
x = x + 1
db.Setting = y
""",
        what="`y = x` aliases y to x's register; the later `x = x + 1` changes y",
    ),
    "chained_comparison": dict(
        src=HDR + """
a = d0.Setting
if 0 < a < 10:
    db.Setting = 1
else:
    db.Setting = 2
""",
        what="chained comparison `0 < a < 10`: only the first comparison is compiled",
    ),
    "for_var_after_loop": dict(
        src=HDR + """
for i in range(3):
    db.Setting = i
db.Mode = i
""",
        what="loop variable read after a for-range loop holds the first value past the range (3), not the last one (2)",
    ),
    "named_batch_slot_store": dict(
        src=HDR + """
ArcFurnaces["Smelter"].Export.Occupied = d0.Setting
""",
        what="slot store through a name-filtered batch handle: the name filter is dropped (plain sbs to every device of the type)",
    ),
    "jump_table": dict(
        src=HDR + """
db.Setting = [90, 91, 92, 93, 94, 95][d0.On]
""",
        what="constant list with 6 entries and dynamic index: jump table pairs select the wrong element",
    ),
    "for_continue": dict(
        src=HDR + """
for i in range(3):
    if d0.On > i:
        continue
    db.Setting = i
""",
        what="`continue` inside for-range jumps to the loop test without incrementing",
    ),
    "break_nested": dict(
        src=HDR + """
while True:
    yield_()
    if d0.On > 1:
        db.Setting = 5
        break
    db.Setting = 6
""",
        what="`break` after another statement inside an if body: the jump is emitted before the body",
    ),
    "break_in_forlist": dict(
        src=HDR + """
for x in [1, 2, 3]:
    if d0.On > x:
        break
    db.Setting = x
""",
        what="break inside for-over-list emits `j None`",
    ),
    "ref_id_register": dict(
        src=HDR + """
def f():
    pid = Batteries.Minimum.ReferenceId
    st = Stack(ref_id=pid)
    st[st[63] + 1] = 7

f()
f()
""",
        what="register holding a reference id is reused for a temporary before its last use as device operand",
    ),
    "loop_bound_mutation": dict(
        src=HDR + """
n = d0.Setting
for i in range(n):
    n = n - 1
    db.Setting = i
""",
        what="range() bound re-read on every iteration although Python evaluates it once",
    ),
    "list1_dynamic": dict(
        src=HDR + """
v = [0.5][d4.Setting]
db.Setting = v + 1
""",
        what="one-element constant list with dynamic index assigned to a variable: register never written",
    ),
    "forlist_nested": dict(
        src=HDR + """
for a in [1, 2]:
    for b in [10, 20]:
        db.Setting = a + b
""",
        what="nested for-over-list loops: the inner jal overwrites ra, the outer body never returns correctly",
    ),
    "forlist_call": dict(
        src=HDR + """
def f(x):
    db.Setting = x
    d0.Setting = x

for a in [1, 2]:
    f(a)
    f(a + 1)
""",
        what="function call (jal) inside a for-over-list body overwrites the body's return address",
    ),
    "inline_arg_alias": dict(
        src=HDR + """
G = d0.Setting

def f(p):
    global G
    G = p + 1
    db.Setting = p

f(G)
""",
        what="inlined call f(G) where f assigns the global G: parameter p is aliased to G's register and changes with it",
    ),
    "if_not_constant": dict(
        src=HDR + """
LEVEL = 2
if not LEVEL:
    db.On = 1
else:
    db.Setting = 5
db.Open = 7
""",
        what="`if not <truthy constant>:` with an else branch: both branches are emitted with an unconditional jump over the else branch",
    ),
}
