"""Shared plumbing of the checks: parallel map, known findings, evidence files, verdict lines."""
from __future__ import annotations

import json
import multiprocessing as mp
import os
import sys
import time
from pathlib import Path

VERIF = Path(__file__).resolve().parent.parent
EVIDENCE = Path(os.environ.get("VERIF_EVIDENCE_DIR", str(VERIF / "evidence")))
KNOWN = VERIF / "known_findings.json"

HARNESS_ERROR = 3


def seed() -> int:
    try:
        return int(os.environ.get("VERIF_SEED", "0"))
    except ValueError:
        return 0


def workers() -> int:
    try:
        return max(1, min(16, int(os.environ.get("VERIF_WORKERS", str(os.cpu_count() or 4)))))
    except ValueError:
        return 8


def pmap(fn, items, nworkers=None, chunksize=1, budget_s=None, placeholder=None):
    """Parallel map that cannot hang: every item is submitted separately; the whole map has a wall
    budget, after which the remaining items are returned as {'status': 'timeout'} and the pool is
    terminated (a crashed or stuck worker therefore costs items, never the run)."""
    items = list(items)
    n = nworkers or workers()
    if n <= 1 or len(items) <= 1:
        return [fn(i) for i in items]
    if budget_s is None:
        budget_s = float(os.environ.get("VERIF_MAP_BUDGET", "2400" if os.environ.get("VERIF_TIER") != "thorough" else "5400"))
    ctx = mp.get_context("fork")
    pool = ctx.Pool(min(n, len(items)), maxtasksperchild=25)
    t_end = time.time() + budget_s
    out = []
    try:
        asyncs = [pool.apply_async(fn, (it,)) for it in items]
        for it, a in zip(items, asyncs):
            try:
                out.append(a.get(timeout=max(1.0, t_end - time.time())))
            except mp.TimeoutError:
                out.append((placeholder or _placeholder)(it, "timeout", "parallel map budget exhausted (stuck or slow worker)"))
            except Exception as e:  # worker raised
                out.append((placeholder or _placeholder)(it, "harness_error", f"{type(e).__name__}: {e}"))
    finally:
        pool.terminate()
        pool.join()
    return out


def _placeholder(item, status, detail):
    name = None
    spec = item[1] if isinstance(item, tuple) and len(item) == 2 else item
    if isinstance(spec, dict):
        name = spec.get("name")
    return {"name": name, "status": status, "detail": detail, "problems": [], "events": [], "paths": 0, "strings": 0, "outputs": 0}


def load_known() -> dict:
    if KNOWN.exists():
        return json.loads(KNOWN.read_text())
    return {"findings": [], "fixed": []}


def known_for(prop: str) -> list:
    return [f for f in load_known().get("findings", []) if f["property"] == prop]


class Report:
    def __init__(self, prop: str, tier: str, level: str):
        self.prop = prop
        self.tier = tier
        self.level = level
        self.t0 = time.time()
        self.violations: list[tuple[str, str]] = []  # (what, replay path)
        self.known_hits: list[str] = []
        self.coverage: dict = {}
        self.assumptions: list[str] = []
        self.harness_errors: list[str] = []
        self.notes: list[str] = []

    def violation(self, what: str, replay: str):
        self.violations.append((what, replay))

    def known(self, what: str):
        if what not in self.known_hits:
            self.known_hits.append(what)

    def finish(self) -> int:
        wall = time.time() - self.t0
        cov = dict(self.coverage)
        cov.setdefault("known_findings_reproduced", list(self.known_hits))
        if self.harness_errors:
            cov["harness_errors"] = self.harness_errors[:10]
        # uniform solver report: functions encoded and bounds (stated per property module), queries
        # discharged and solver time (measured; summed from wherever the check recorded them)
        mod = sys.modules.get(f"vf.props.{self.prop.lower()}")
        info = getattr(mod, "SOLVER", {}) if mod is not None else {}
        for k in ("functions_encoded", "bounds"):
            if k not in cov and k in info:
                cov[k] = info[k]

        def _walk(o, key):
            tot = 0.0
            if isinstance(o, dict):
                for k, v in o.items():
                    if k == key and isinstance(v, (int, float)) and not isinstance(v, bool):
                        tot += v
                    elif k == key and isinstance(v, dict) and isinstance(v.get("total"), (int, float)):
                        tot += v["total"]
                    else:
                        tot += _walk(v, key)
            elif isinstance(o, list):
                for v in o:
                    tot += _walk(v, key)
            return tot

        if "queries" not in cov:
            q = _walk(cov, "queries") + _walk(cov, "obligations")
            cov["queries"] = int(q)
        if "solver_s" not in cov:
            cov["solver_s"] = round(_walk(cov, "solver_s"), 2)
        ev = {
            "property_id": self.prop,
            "tier": self.tier,
            "seed": seed(),
            "level": self.level,
            "coverage": cov,
            "assumptions": self.assumptions,
            "wall_s": round(wall, 2),
            "violations": len(self.violations),
        }
        EVIDENCE.mkdir(parents=True, exist_ok=True)
        (EVIDENCE / f"{self.prop}.json").write_text(json.dumps(ev, indent=1, default=str) + "\n")
        for k in self.known_hits:
            print(f"KNOWN-FINDING: property={self.prop} {k}")
        for what, replay in self.violations:
            print(f"VIOLATION property={self.prop} replay={replay}")
            print(f"  {what}")
        for n in self.notes:
            print(n)
        if self.violations:
            return 1
        if self.harness_errors:
            for h in self.harness_errors[:5]:
                print("HARNESS-ERROR:", h, file=sys.stderr)
            return HARNESS_ERROR
        print(f"OK property={self.prop} tier={self.tier} wall={wall:.1f}s")
        return 0


def sample(xs, n=3):
    xs = list(xs)
    if len(xs) <= n:
        return xs
    step = max(1, len(xs) // n)
    return xs[::step][:n]
