"""Value domain and path exploration shared by the IC10 machine and the dialect interpreter.

A value is a Python ``float`` (concrete) or a z3 ``ArithRef`` of sort Real (symbolic).  Every IC10
operation is a function of this module: with concrete operands it computes the IC10 (IEEE double)
result, otherwise it builds a z3 term.  ``add sub`` and ``mul``/``div`` by a constant are linear real
arithmetic, ``mod`` by a positive constant and ``floor/ceil/trunc`` use ToInt, comparisons and
``select`` are ``ite``; everything else is an uninterpreted function.  A ``sat`` answer is never
reported before the model has been replayed concretely (see equiv.py).
"""
from __future__ import annotations

import math
import struct
import time
from fractions import Fraction

import z3

R = z3.RealSort()
I = z3.IntSort()

ONE = 1.0
ZERO = 0.0


class Unsupported(Exception):
    """The engine cannot model something; the obligation ends as inconclusive."""


class PathAbort(Exception):
    """The current path leaves the assumptions (out-of-range index, ...)."""


class BoundHit(Exception):
    """A step / effect / fork bound was hit on this path."""


def is_conc(v) -> bool:
    return isinstance(v, float)


def conc(v) -> float:
    if isinstance(v, bool):
        return 1.0 if v else 0.0
    if isinstance(v, (int, float)):
        return float(v)
    raise TypeError(f"not a number: {v!r}")


_rv_cache: dict[float, z3.ArithRef] = {}


def to_z3(v):
    if isinstance(v, float):
        t = _rv_cache.get(v)
        if t is None:
            if math.isnan(v) or math.isinf(v):
                raise Unsupported("NaN/inf constant in symbolic context")
            fr = Fraction(v)
            t = z3.RealVal(f"{fr.numerator}/{fr.denominator}")
            _rv_cache[v] = t
        return t
    return v


def z3_to_float(val) -> float:
    """Model value (rational / algebraic) -> nearest double."""
    if z3.is_rational_value(val):
        return float(Fraction(val.numerator_as_long(), val.denominator_as_long()))
    if z3.is_algebraic_value(val):
        return float(val.approx(20).as_decimal(20).rstrip("?"))
    if z3.is_int_value(val):
        return float(val.as_long())
    raise Unsupported(f"cannot convert model value {val}")


# ----------------------------------------------------------------------------------------------
# concrete IC10 semantics (IEEE doubles, as C#)


def _c_div(a, b):
    try:
        return a / b
    except ZeroDivisionError:
        if a == 0 or math.isnan(a):
            return math.nan
        neg = (math.copysign(1.0, a) < 0) != (math.copysign(1.0, b) < 0)
        return -math.inf if neg else math.inf


def _c_mod(a, b):
    try:
        r = math.fmod(a, b)
    except (ValueError, ZeroDivisionError):
        return math.nan
    if r < 0:
        r += b
    return r


def _guard(f):
    def g(*a):
        try:
            r = f(*a)
            if isinstance(r, complex):
                return math.nan
            return float(r)
        except OverflowError:
            return math.inf
        except (ValueError, ZeroDivisionError):
            return math.nan

    return g


def _to_long(a: float) -> int:
    if math.isnan(a) or math.isinf(a):
        return -(2**63)
    i = int(a)
    if i >= 2**63 or i < -(2**63):
        return -(2**63)
    return i


def _wrap64(i: int) -> int:
    i &= (1 << 64) - 1
    return i - (1 << 64) if i >= (1 << 63) else i


def _bit(f):
    return lambda a, b: float(_wrap64(f(_to_long(a), _to_long(b))))


def _c_round(a):
    # C# Math.Round: banker's rounding, like Python round()
    if math.isnan(a) or math.isinf(a):
        return a
    return float(round(a))


def _srl(a, b):
    return ((a & ((1 << 64) - 1)) >> b) if 0 <= b < 64 else 0


def _sll(a, b):
    return (a << b) if 0 <= b < 64 else 0


def _sra(a, b):
    return (a >> b) if 0 <= b < 64 else (0 if a >= 0 else -1)


CONC = {
    "add": lambda a, b: a + b,
    "sub": lambda a, b: a - b,
    "mul": lambda a, b: a * b,
    "div": _c_div,
    "mod": _c_mod,
    "pow": _guard(lambda a, b: math.pow(a, b)),
    "max": lambda a, b: max(a, b),
    "min": lambda a, b: min(a, b),
    "atan2": _guard(math.atan2),
    "and": _bit(lambda a, b: a & b),
    "or": _bit(lambda a, b: a | b),
    "xor": _bit(lambda a, b: a ^ b),
    "nor": _bit(lambda a, b: ~(a | b)),
    "sll": _bit(_sll),
    "sla": _bit(_sll),
    "srl": _bit(_srl),
    "sra": _bit(_sra),
    "abs": lambda a: abs(a),
    "ceil": _guard(math.ceil),
    "floor": _guard(math.floor),
    "trunc": _guard(math.trunc),
    "round": _c_round,
    "sqrt": _guard(math.sqrt),
    "exp": _guard(math.exp),
    "log": _guard(lambda a: -math.inf if a == 0 else math.log(a)),
    "sin": _guard(math.sin),
    "cos": _guard(math.cos),
    "tan": _guard(math.tan),
    "asin": _guard(math.asin),
    "acos": _guard(math.acos),
    "atan": _guard(math.atan),
    "not": lambda a: float(_wrap64(~_to_long(a))),
    "lerp": lambda a, b, c: a + (b - a) * min(1.0, max(0.0, c)),
}

_UF: dict[tuple[str, int], z3.FuncDeclRef] = {}


def uf(name: str, arity: int):
    k = (name, arity)
    f = _UF.get(k)
    if f is None:
        f = z3.Function("f_" + name, *([R] * (arity + 1)))
        _UF[k] = f
    return f


def _floor_t(x):
    return z3.ToReal(z3.ToInt(x))


def _is_posint(v):
    return is_conc(v) and v > 0 and v == math.floor(v) and v < 2**31


def op(name: str, *args):
    """IC10 arithmetic / logic instruction ``name`` applied to values."""
    if all(isinstance(a, float) for a in args):
        f = CONC.get(name)
        if f is None:
            raise Unsupported(f"no concrete semantics for {name}")
        return float(f(*args))
    if name in ("and", "or", "xor") and len(args) == 2:
        b0, b1 = as_bool01(args[0]), as_bool01(args[1])
        if b0 is not None and b1 is not None:
            z0 = z3.BoolVal(b0) if isinstance(b0, bool) else b0
            z1 = z3.BoolVal(b1) if isinstance(b1, bool) else b1
            c = {"and": z3.And, "or": z3.Or, "xor": z3.Xor}[name](z0, z1)
            return z3.If(c, to_z3(1.0), to_z3(0.0))
    za = [to_z3(a) for a in args]
    if name == "add":
        return za[0] + za[1]
    if name == "sub":
        return za[0] - za[1]
    if name == "mul" and (is_conc(args[0]) or is_conc(args[1])):
        return za[0] * za[1]
    if name == "div" and is_conc(args[1]) and args[1] != 0:
        return za[0] / za[1]
    if name == "mod" and _is_posint(args[1]):
        return za[0] - za[1] * _floor_t(za[0] / za[1])
    if name == "floor":
        return _floor_t(za[0])
    if name == "ceil":
        return -_floor_t(-za[0])
    if name == "trunc":
        return z3.If(za[0] >= 0, _floor_t(za[0]), -_floor_t(-za[0]))
    if name == "abs":
        return z3.If(za[0] >= 0, za[0], -za[0])
    if name == "max":
        return z3.If(za[0] >= za[1], za[0], za[1])
    if name == "min":
        return z3.If(za[0] <= za[1], za[0], za[1])
    if name not in CONC:
        raise Unsupported(f"unknown op {name}")
    return uf(name, len(args))(*za)


def as_bool01(v):
    """If v is known to be 0/1-valued (a comparison result), return its condition, else None."""
    if isinstance(v, float):
        if v == 0.0:
            return False
        if v == 1.0:
            return True
        return None
    if z3.is_app_of(v, z3.Z3_OP_ITE):
        c, a, b = v.children()
        if z3.is_rational_value(a) and z3.is_rational_value(b):
            fa, fb = z3_to_float(a), z3_to_float(b)
            if fa == 1.0 and fb == 0.0:
                return c
            if fa == 0.0 and fb == 1.0:
                return z3.Not(c)
    return None


def logic(name, a, b):
    return op(name, a, b)


CMP = {
    "eq": lambda a, b: a == b,
    "ne": lambda a, b: a != b,
    "lt": lambda a, b: a < b,
    "le": lambda a, b: a <= b,
    "gt": lambda a, b: a > b,
    "ge": lambda a, b: a >= b,
}


def _approx_c(a, b, c):
    return abs(a - b) <= max(c * max(abs(a), abs(b)), 2.220446049250313e-16 * 8)


def cond(name: str, *args):
    """Boolean condition of set / branch families: eq ne lt le gt ge ap na (+z forms resolved by caller),
    nan.  Returns a Python bool or a z3 BoolRef."""
    if all(isinstance(a, float) for a in args):
        if name in CMP:
            return bool(CMP[name](args[0], args[1]))
        if name == "ap":
            return bool(_approx_c(*args))
        if name == "na":
            return not _approx_c(*args)
        if name == "nan":
            return math.isnan(args[0])
        raise Unsupported(name)
    za = [to_z3(a) for a in args]
    if name in CMP:
        return CMP[name](za[0], za[1])
    if name in ("ap", "na"):
        p = z3.Function("p_ap", R, R, R, z3.BoolSort())(*za)
        return p if name == "ap" else z3.Not(p)
    if name == "nan":
        return False  # no NaN in the symbolic model (stated assumption)
    raise Unsupported(name)


def b2v(c):
    """bool / BoolRef -> 0/1 value."""
    if isinstance(c, bool):
        return 1.0 if c else 0.0
    return z3.If(c, to_z3(1.0), to_z3(0.0))


def truthy(v):
    """value != 0 as bool / BoolRef."""
    if is_conc(v):
        return v != 0.0
    return v != 0


def bnot(c):
    if isinstance(c, bool):
        return not c
    return z3.Not(c)


def select(c, a, b):
    if isinstance(c, bool):
        return a if c else b
    return z3.If(c, to_z3(a), to_z3(b))


def same(a, b) -> bool:
    """Cheap syntactic equality."""
    if is_conc(a) and is_conc(b):
        return a == b or (math.isnan(a) and math.isnan(b))
    if is_conc(a) or is_conc(b):
        return False
    return a.eq(b)


# ----------------------------------------------------------------------------------------------
# path exploration by re-execution


DEADLINE = None  # wall-clock deadline of the current task (cooperative; checked between solver calls)


class TaskTimeout(Exception):
    pass


def set_deadline(seconds):
    global DEADLINE
    DEADLINE = None if seconds is None else time.time() + seconds


def check_deadline():
    if DEADLINE is not None and time.time() > DEADLINE:
        raise TaskTimeout()


class Stats:
    def __init__(self):
        self.queries = 0
        self.sat = 0
        self.unsat = 0
        self.unknown = 0
        self.solver_s = 0.0
        self.paths = 0
        self.aborted = 0
        self.bound_hits = 0
        self.spurious = 0

    def add(self, o: "Stats"):
        for k, v in o.__dict__.items():
            setattr(self, k, getattr(self, k) + v)

    def as_dict(self):
        d = dict(self.__dict__)
        d["solver_s"] = round(d["solver_s"], 3)
        return d


class Ctx:
    """One exploration: a z3 solver, the decision prefix to follow and the work list.

    ``concrete`` mode (replay): there are no symbolic values, decide() just evaluates.
    """

    def __init__(self, timeout_ms=5000, max_paths=128, concrete_env=None):
        self.solver = z3.Solver()
        self.solver.set("timeout", timeout_ms)
        self.max_paths = max_paths
        self.stats = Stats()
        self.work: list[list[bool]] = [[]]
        self.prefix: list[bool] = []
        self.decisions: list[bool] = []
        self.pc: list = []  # asserted conditions of the current run
        self.env = concrete_env  # callable(kind, args, epoch)->float in concrete mode
        self.bindings: dict[int, float] = {}
        self.known: dict = {}
        self.inconclusive = 0
        self.truncated = False

    # -- run management -------------------------------------------------------------------
    def begin_run(self, prefix):
        self.prefix = prefix
        self.decisions = []
        self.pc = []
        self.bindings = {}
        self.known = {}
        self.solver.push()

    def end_run(self):
        self.solver.pop()

    def _check(self, *extra):
        check_deadline()
        t0 = time.time()
        r = self.solver.check(*extra)
        self.stats.solver_s += time.time() - t0
        self.stats.queries += 1
        s = str(r)
        if s == "sat":
            self.stats.sat += 1
        elif s == "unsat":
            self.stats.unsat += 1
        else:
            self.stats.unknown += 1
        return s

    def assume(self, c):
        """Add an assumption to the current path (no fork)."""
        if isinstance(c, bool):
            if not c:
                raise PathAbort("assumption false")
            return
        self.solver.add(c)
        self.pc.append(c)

    def feasible(self):
        return self._check() != "unsat"

    def decide(self, c) -> bool:
        if isinstance(c, bool):
            return c
        c = z3.simplify(c)
        if z3.is_true(c):
            return True
        if z3.is_false(c):
            return False
        k = self.known.get(c.get_id())
        if k is not None:
            return k[1]
        i = len(self.decisions)
        if i < len(self.prefix):
            b = self.prefix[i]
        else:
            rt = self._check(c)
            rf = self._check(z3.Not(c))
            if rt == "unknown" or rf == "unknown":
                self.inconclusive += 1
            can_t = rt != "unsat"
            can_f = rf != "unsat"
            if can_t and can_f:
                self.work.append(self.decisions + [False])
                b = True
            elif can_t:
                b = True
            elif can_f:
                b = False
            else:
                raise PathAbort("infeasible path")
        # every non-trivial decision (forced ones too) is recorded so that a re-execution
        # consumes the prefix at exactly the same calls
        self.decisions.append(b)
        self.known[c.get_id()] = (c, b)
        cc = c if b else z3.Not(c)
        self.solver.add(cc)
        self.pc.append(cc)
        return b

    def must_equal(self, a, b) -> str:
        """'eq' if a == b on every model of the path condition, 'ne' if some model differs,
        'unknown' otherwise."""
        if same(a, b):
            return "eq"
        if is_conc(a) and is_conc(b):
            return "ne"
        r = self._check(to_z3(a) != to_z3(b))
        if r == "unsat":
            return "eq"
        if r == "sat":
            return "ne"
        return "unknown"

    def concretize(self, v, what="value", max_forks=16) -> float:
        """Return a concrete value for v, forking over its possible values (bounded)."""
        if is_conc(v):
            return v
        v = z3.simplify(v)
        if z3.is_rational_value(v):
            return z3_to_float(v)
        for _ in range(max_forks):
            r = self._check()
            if r != "sat":
                if r == "unknown":
                    self.inconclusive += 1
                raise PathAbort("cannot concretize: " + r)
            m = self.solver.model()
            val = m.eval(v, model_completion=True)
            f = z3_to_float(val)
            if self.decide(v == val):
                return f
        raise BoundHit(f"too many values for symbolic {what}")

    def model(self):
        r = self._check()
        if r != "sat":
            return None
        return self.solver.model()


def float_bits(x: float) -> int:
    return struct.unpack("<Q", struct.pack("<d", x))[0]
