"""IC10 loader (grammar / signature table written for this project) and symbolic machine."""
from __future__ import annotations

import math
import re
from dataclasses import dataclass, field

import z3

from . import sym
from .sym import BoundHit, PathAbort, Unsupported, is_conc

# ----------------------------------------------------------------------------------------------
# independent CRC-32 (bitwise, reflected 0xEDB88320), signed as the game prints hashes


def crc32(data: bytes) -> int:
    crc = 0xFFFFFFFF
    for b in data:
        crc ^= b
        for _ in range(8):
            crc = (crc >> 1) ^ (0xEDB88320 if crc & 1 else 0)
    return crc ^ 0xFFFFFFFF


def hash_signed(s: str) -> int:
    v = crc32(s.encode("utf-8"))
    return v - (1 << 32) if v >= (1 << 31) else v


def str_pack(s: str) -> int:
    v = 0
    for ch in s:
        v = (v << 8) | ord(ch)
    return v


# ----------------------------------------------------------------------------------------------
# signature table.  Operand kinds:
#   R register written   V value (register, number, hash, enum constant, define)
#   D device (d0-d5, db, alias, or a value = reference id)
#   L logic type   S slot logic type   B batch mode   M reagent mode   T jump target   N name

SIG: dict[str, str] = {
    "alias": "NA",
    "define": "NC",
    "hcf": "",
    "yield": "",
    "sleep": "V",
    "rand": "R",
    "peek": "R",
    "pop": "R",
    "push": "V",
    "poke": "VV",
    "clr": "D",
    "clrd": "V",
    "get": "RDV",
    "getd": "RVV",
    "put": "DVV",
    "putd": "VVV",
    "l": "RDL",
    "lr": "RDMV",
    "ls": "RDVS",
    "s": "DLV",
    "ss": "DVSV",
    "ld": "RVL",
    "sd": "VLV",
    "lb": "RVLB",
    "lbn": "RVVLB",
    "lbs": "RVVSB",
    "lbns": "RVVVSB",
    "sb": "VLV",
    "sbn": "VVLV",
    "sbs": "VVSV",
    "rmap": "RDV",
    "ext": "RVVV",
    "ins": "RVVV",
    "select": "RVVV",
    "lerp": "RVVV",
    "sdns": "RD",
    "sdse": "RD",
    "j": "T",
    "jal": "T",
    "jr": "V",
    "bdnvl": "DLT",
    "bdnvs": "DLT",
}
for _o in "abs ceil exp floor log round sqrt trunc acos asin atan cos sin tan move not".split():
    SIG[_o] = "RV"
for _o in "add sub mul div mod pow max min atan2 and or xor nor sla sll sra srl".split():
    SIG[_o] = "RVV"
for _c in "eq ge gt le lt ne".split():
    SIG["s" + _c] = "RVV"
    SIG["s" + _c + "z"] = "RV"
    for _p, _s in (("b", ""), ("br", ""), ("b", "al")):
        SIG[_p + _c + _s] = "VVT"
        SIG[_p + _c + "z" + _s] = "VT"
for _c in "ap na".split():
    SIG["s" + _c] = "RVVV"
    SIG["s" + _c + "z"] = "RVV"
    for _p, _s in (("b", ""), ("br", ""), ("b", "al")):
        SIG[_p + _c + _s] = "VVVT"
        SIG[_p + _c + "z" + _s] = "VVT"
SIG["snan"] = "RV"
SIG["snanz"] = "RV"
SIG["bnan"] = "VT"
SIG["brnan"] = "VT"
for _o in "bdns bdse bdnsal bdseal brdns brdse".split():
    SIG[_o] = "DT"

HAS_OUTPUT = {o for o, s in SIG.items() if s.startswith("R")}

REG_RE = re.compile(r"^(r(1[0-5]|[0-9])|sp|ra)$")
PIN_RE = re.compile(r"^(d[0-5]|db)$")
NUM_RE = re.compile(r"^-?(\d+\.?\d*|\.\d+)$")
HEX_RE = re.compile(r"^\$[0-9A-Fa-f_]+$")
BIN_RE = re.compile(r"^%[01_]+$")
HASH_RE = re.compile(r'^HASH\("([^"]*)"\)$')
STR_RE = re.compile(r'^STR\("([^"]*)"\)$')
IDENT_RE = re.compile(r"^[A-Za-z_][A-Za-z0-9_.]*$")
TOKEN_RE = re.compile(r'(?:HASH|STR)\("[^"]*"\)|\S+')

CONSTANTS = {
    "nan": math.nan,
    "pinf": math.inf,
    "ninf": -math.inf,
    "pi": math.pi,
    "deg2rad": math.pi / 180,
    "rad2deg": 180 / math.pi,
    "epsilon": 4.94065645841247e-324,
}

REG_INDEX = {f"r{i}": i for i in range(16)}
REG_INDEX["sp"] = 16
REG_INDEX["ra"] = 17
PIN_INDEX = {f"d{i}": float(i) for i in range(6)}
PIN_INDEX["db"] = 6.0


class LoadError(Exception):
    def __init__(self, lineno, line, msg, kind="other"):
        super().__init__(f"line {lineno}: {msg}: {line!r}")
        self.lineno = lineno
        self.line = line
        self.msg = msg
        self.kind = kind  # 'label' / 'target' for label problems, 'other' otherwise


_enum_tables = None


def enum_tables():
    """name -> number tables, taken from the repository's generated enums (trusted, see C16)."""
    global _enum_tables
    if _enum_tables is None:
        from . import tables

        en = tables.enums()
        t = {"L": {}, "S": {}, "B": {}, "M": {}, "qualified": {}}
        for k, cls in (("L", "LogicType"), ("S", "LogicSlotType"), ("B", "LogicBatchMethod"), ("M", "LogicReagentMode")):
            for name, v in en[cls].items():
                t[k][name] = float(v)
        for cname, members in en.items():
            for name, v in members.items():
                t["qualified"][f"{cname}.{name}"] = float(v)
        _enum_tables = t
    return _enum_tables


def strip_comment(line: str) -> str:
    out = []
    inq = False
    for ch in line:
        if ch == '"':
            inq = not inq
        if ch == "#" and not inq:
            break
        out.append(ch)
    return "".join(out)


@dataclass
class Instr:
    op: str
    args: list  # list of (kind, payload)
    raw: str
    lineno: int  # index in the text (0-based)


@dataclass
class Program:
    text: str
    instrs: list = field(default_factory=list)  # one entry per text line (labels -> op 'label')
    labels: dict = field(default_factory=dict)
    defines: dict = field(default_factory=dict)
    aliases: dict = field(default_factory=dict)
    lenient_names: frozenset = frozenset()

    @property
    def n(self):
        return len(self.instrs)


def parse_number(tok: str):
    if NUM_RE.match(tok):
        return float(tok)
    if HEX_RE.match(tok):
        return float(int(tok[1:].replace("_", ""), 16))
    if BIN_RE.match(tok):
        return float(int(tok[1:].replace("_", ""), 2))
    m = HASH_RE.match(tok)
    if m:
        return float(hash_signed(m.group(1)))
    m = STR_RE.match(tok)
    if m:
        if len(m.group(1)) > 6:
            raise ValueError("STR longer than 6 characters")
        return float(str_pack(m.group(1)))
    return None


def load(text: str, lenient_names=frozenset()) -> Program:
    """Parse IC10 text.  Every line must be a label definition, an instruction of SIG with operands
    of the right kinds, or empty/comment.  Raises LoadError otherwise."""
    prog = Program(text=text, lenient_names=frozenset(lenient_names))
    et = enum_tables()
    rawlines = text.split("\n")
    toks_by_line = []
    # pass 1: labels, defines, aliases
    for i, line in enumerate(rawlines):
        body = strip_comment(line).strip()
        toks = TOKEN_RE.findall(body)
        toks_by_line.append(toks)
        if len(toks) == 1 and toks[0].endswith(":"):
            name = toks[0][:-1]
            if not IDENT_RE.match(name):
                raise LoadError(i, line, "malformed label")
            if name in prog.labels:
                raise LoadError(i, line, f"label {name} defined twice", "label")
            prog.labels[name] = i
        elif toks and toks[0] == "define":
            if len(toks) != 3 or not IDENT_RE.match(toks[1]):
                raise LoadError(i, line, "malformed define")
            v = parse_number(toks[2])
            if v is None:
                raise LoadError(i, line, "define value is not a number")
            prog.defines[toks[1]] = v
        elif toks and toks[0] == "alias":
            if len(toks) != 3 or not IDENT_RE.match(toks[1]):
                raise LoadError(i, line, "malformed alias")
            if PIN_RE.match(toks[2]):
                prog.aliases[toks[1]] = ("pin", PIN_INDEX[toks[2]])
            elif REG_RE.match(toks[2]):
                prog.aliases[toks[1]] = ("reg", REG_INDEX[toks[2]])
            else:
                raise LoadError(i, line, "alias target must be a device pin or a register")

    def value(tok, i, line, allow_label=False):
        if REG_RE.match(tok):
            return ("reg", REG_INDEX[tok])
        try:
            v = parse_number(tok)
        except ValueError as e:
            raise LoadError(i, line, str(e))
        if v is not None:
            return ("num", v)
        if tok in prog.aliases and prog.aliases[tok][0] == "reg":
            return prog.aliases[tok]
        if tok in prog.defines:
            return ("num", prog.defines[tok])
        if tok in et["qualified"]:
            return ("num", et["qualified"][tok])
        if tok in CONSTANTS:
            return ("num", CONSTANTS[tok])
        for tk in ("L", "S", "B"):
            # a bare logic/slot/batch name used as a value (the compiler prints LogicType members
            # without prefix); accepted and read as the member's number
            if tok in et[tk]:
                return ("num", et[tk][tok])
        if allow_label and tok in prog.labels:
            return ("label", tok)
        raise LoadError(i, line, f"operand {tok!r} is not a register, number or known constant")

    for i, line in enumerate(rawlines):
        toks = toks_by_line[i]
        if not toks:
            prog.instrs.append(Instr("nop", [], line, i))
            continue
        if len(toks) == 1 and toks[0].endswith(":"):
            prog.instrs.append(Instr("label", [("name", toks[0][:-1])], line, i))
            continue
        opc = toks[0]
        if opc not in SIG:
            raise LoadError(i, line, f"unknown opcode {opc!r}")
        sig = SIG[opc]
        if len(toks) - 1 != len(sig):
            raise LoadError(i, line, f"{opc} takes {len(sig)} operands, got {len(toks) - 1}")
        args = []
        for k, tok in zip(sig, toks[1:]):
            if k == "R":
                if not REG_RE.match(tok):
                    if tok in prog.aliases and prog.aliases[tok][0] == "reg":
                        args.append(prog.aliases[tok])
                        continue
                    raise LoadError(i, line, f"destination {tok!r} is not a register")
                args.append(("reg", REG_INDEX[tok]))
            elif k == "V":
                args.append(value(tok, i, line, allow_label=True))
            elif k == "T":
                try:
                    args.append(value(tok, i, line, allow_label=True))
                except LoadError as e:
                    raise LoadError(i, line, f"jump target {tok!r} is neither a defined label nor a number", "target")
            elif k == "D":
                if PIN_RE.match(tok):
                    args.append(("pin", PIN_INDEX[tok]))
                elif tok in prog.aliases and prog.aliases[tok][0] == "pin":
                    args.append(prog.aliases[tok])
                else:
                    kind, payload = value(tok, i, line)
                    args.append(("ref" + kind, payload))  # refreg / refnum
            elif k in "LSBM":
                tbl = et[k]
                if tok in tbl:
                    args.append(("num", tbl[tok]))
                elif tok in prog.lenient_names and IDENT_RE.match(tok):
                    # a name the user typed verbatim on a generic device: passed through
                    args.append(("num", float(hash_signed("lenient:" + tok))))
                else:
                    full = {"L": "LogicType.", "S": "LogicSlotType.", "B": "LogicBatchMethod.", "M": "LogicReagentMode."}[k]
                    if tok.startswith(full) and tok[len(full):] in tbl:
                        args.append(("num", tbl[tok[len(full):]]))
                    else:
                        args.append(value(tok, i, line))
            elif k == "N":
                args.append(("name", tok))
            elif k == "A":
                args.append(("name", tok))
            elif k == "C":
                args.append(("num", parse_number(tok)))
            else:  # pragma: no cover
                raise AssertionError(k)
        prog.instrs.append(Instr(opc, args, line, i))
    return prog


# ----------------------------------------------------------------------------------------------
# environment


def env_read(ctx: sym.Ctx, kind: str, args: list, epoch: int):
    """Value of an environment read.  Symbolic mode: an uninterpreted function application
    R_<kind>(args..., epoch); concrete mode: ctx.env decides."""
    if ctx.env is not None:
        for a in args:
            if not is_conc(a):
                raise Unsupported("symbolic argument in concrete mode")
        return float(ctx.env(kind, tuple(args), epoch))
    f = z3.Function("R_" + kind, *([sym.R] * (len(args) + 2)))
    t = f(*[sym.to_z3(a) for a in args], sym.to_z3(float(epoch)))
    b = ctx.bindings.get(t.get_id())
    if b is not None:
        return b[1]
    return t


class Memory:
    """The chip's own 512-cell stack."""

    def __init__(self, ctx: sym.Ctx):
        self.ctx = ctx
        self.conc: dict[float, object] = {}
        self.base_writes: list = []  # symbolic-address writes older than self.conc: (addr, val)

    def copy(self):
        m = Memory(self.ctx)
        m.conc = dict(self.conc)
        m.base_writes = list(self.base_writes)
        return m

    def _base(self, addr):
        v = env_read(self.ctx, "mem0", [addr], 0)
        for a, val in self.base_writes:
            if is_conc(a) and is_conc(addr):
                if a == addr:
                    v = val
            else:
                v = sym.select(sym.to_z3(a) == sym.to_z3(addr), val, v)
        return v

    def read(self, addr):
        if is_conc(addr):
            if addr in self.conc:
                return self.conc[addr]
            return self._base(addr)
        v = self._base(addr)
        for a, val in self.conc.items():
            v = sym.select(sym.to_z3(addr) == sym.to_z3(a), val, v)
        return v

    def write(self, addr, val):
        if is_conc(addr):
            self.conc[addr] = val
        else:
            for a, v in self.conc.items():
                self.base_writes.append((a, v))
            self.conc = {}
            self.base_writes.append((addr, val))


@dataclass
class Effect:
    kind: str
    args: tuple
    pc: int = -1

    def show(self):
        def s(v):
            if is_conc(v):
                return repr(v)
            return str(z3.simplify(v)).replace("\n", " ")

        return f"{self.kind}(" + ", ".join(s(a) for a in self.args) + ")"


EFFECT_OPS = {"s", "sb", "sbn", "ss", "sbs", "sd", "put", "putd", "clr", "clrd", "yield", "sleep", "hcf"}


class Machine:
    def __init__(self, prog: Program, ctx: sym.Ctx, main_end: int | None = None, monitor=None, shadow=None):
        self.p = prog
        self.ctx = ctx
        self.regs: list = [0.0] * 18
        self.mem = Memory(ctx)
        self.pc = 0
        self.trace: list[Effect] = []
        self.epoch = 0
        self.steps = 0
        self.status = None
        self.main_end = main_end  # first text line index that belongs to a function region
        self.monitor = monitor
        self.shadow = shadow  # C04: per-line virtual register names
        self.vregs: dict[str, object] = {}
        self.events: list = []
        self.rand_n = 0
        self.halt_on_fallthrough = True
        self._fp_epoch = -1
        self._fps: set = set()
        self.called: set = set()  # targets of linking jumps executed on this path
        self.regions = None  # per text line: owner function name (C07)
        self.entries = set()  # first line of every function region

    # ---- operand access -----------------------------------------------------------------
    def val(self, a):
        k, p = a
        if k == "reg":
            return self.regs[p]
        if k == "num":
            return p
        if k == "label":
            return float(self.p.labels[p])
        raise Unsupported(f"operand kind {k}")

    def dev(self, a):
        """-> (suffix, value): 'pin' with pin number or 'ref' with reference id value."""
        k, p = a
        if k == "pin":
            return "pin", p
        if k == "refreg":
            return "ref", self.regs[p]
        if k == "refnum":
            return "ref", p
        raise Unsupported(f"device operand {k}")

    def setreg(self, a, v):
        assert a[0] == "reg"
        self.regs[a[1]] = v

    def effect(self, kind, *args):
        self.trace.append(Effect(kind, tuple(args), self.pc))
        self.epoch += 1

    def read(self, kind, *args):
        return env_read(self.ctx, kind, list(args), self.epoch)

    def target(self, a):
        v = self.val(a)
        t = self.ctx.concretize(v, "jump target")
        if t != math.floor(t):
            raise PathAbort("non-integral jump target")
        return int(t)

    # ---- execution -----------------------------------------------------------------------
    def run(self, max_steps=1500, max_effects=12):
        p = self.p
        while True:
            if self.pc >= p.n or self.pc < 0:
                self.status = "halt"
                return self.status
            if self.steps >= max_steps:
                self.status = "bound_steps"
                return self.status
            if len(self.trace) >= max_effects:
                self.status = "bound_effects"
                return self.status
            ins = p.instrs[self.pc]
            self.steps += 1
            if self.steps % 256 == 0:
                sym.check_deadline()
            npc = self.step(ins)
            if self.status:
                return self.status
            jumped = npc is not None
            if not jumped:
                npc = self.pc + 1
            linking = jumped and (ins.op == "jal" or ins.op.endswith("al"))
            is_return = jumped and ins.op == "j" and ins.args[0] == ("reg", 17)
            if (
                self.main_end is not None
                and npc == self.main_end
                and npc < p.n
                and self.pc != npc
                and ((self.pc < self.main_end and not linking) or is_return)
            ):
                # the top-level script reached its end (sequentially, by a jump to its end label or by
                # the return of its last call) and control continues into the first function region
                self.events.append(("fallthrough", self.pc, npc))
                if self.halt_on_fallthrough:
                    self.pc = npc
                    self.status = "fallthrough"
                    return self.status
            elif self.regions is not None and 0 <= npc < p.n and self.regions[self.pc] != self.regions[npc]:
                # entering another function's region: only by a call / tail call to its first line
                # or by a return through ra
                how = "sequential" if not jumped else ins.op
                is_entry = npc in self.entries
                if not (is_return or (is_entry and how != "sequential")):
                    self.events.append(("region_cross", self.pc, npc, how, self.regions[self.pc], self.regions[npc]))
            self.pc = npc

    def _shadow_reads(self, ins, read_idx):
        """C04 lock-step: every register read must equal the value last written to the same
        virtual register."""
        names = self.shadow.get(ins.lineno)
        if names is None:
            return
        for j in read_idx:
            a = ins.args[j]
            if a[0] not in ("reg", "refreg"):
                continue
            vname = names[j]
            if vname is None or not vname.startswith("__register."):
                continue
            pv = self.regs[a[1]]
            if vname not in self.vregs:
                self.events.append(("uninit_read", ins.lineno, vname, ins.raw.strip()))
                continue
            vv = self.vregs[vname]
            r = self.ctx.must_equal(pv, vv)
            if r != "eq":
                cond = None if (is_conc(pv) and is_conc(vv)) else (sym.to_z3(pv) != sym.to_z3(vv))
                self.events.append(("clobber", ins.lineno, vname, ins.raw.strip(), r, str(pv), str(vv), cond))

    def _shadow_write(self, ins, j, v):
        names = self.shadow.get(ins.lineno)
        if names is None:
            return
        vname = names[j]
        if vname is not None and vname.startswith("__register."):
            self.vregs[vname] = v

    def step(self, ins: Instr):
        op = ins.op
        a = ins.args
        if op in ("label", "nop", "alias", "define"):
            return None
        sig = SIG[op]
        if self.shadow is not None:
            self._shadow_reads(ins, [j for j, k in enumerate(sig) if k != "R"])
        if self.monitor is not None:
            self.monitor.before(self, ins)
        r = self._exec(op, a, ins)
        if self.shadow is not None and sig.startswith("R"):
            self._shadow_write(ins, 0, self.regs[a[0][1]])
        return r

    def _fingerprint(self):
        def f(v):
            return v if isinstance(v, float) else ("z", v.get_id())

        return (
            tuple(f(v) for v in self.regs),
            tuple(sorted((a, f(v)) for a, v in self.mem.conc.items())),
            len(self.mem.base_writes),
            self.rand_n,
        )

    def _jump(self, ins, tgt, link=False, relative=False):
        if relative:
            tgt = self.pc + tgt
        if link:
            self.regs[17] = float(self.pc + 1)
            self.called.add(tgt)
        if self.monitor is not None:
            self.monitor.jump(self, ins, tgt, link)
        if tgt <= self.pc:
            # backward jump: an exactly repeated machine state within one epoch can never produce
            # another effect (reads are fixed within an epoch) -> the program hangs
            if self._fp_epoch != self.epoch:
                self._fp_epoch = self.epoch
                self._fps = set()
            fp = (tgt, self._fingerprint())
            if fp in self._fps:
                self.status = "hang"
            self._fps.add(fp)
        return tgt

    def _exec(self, op, a, ins):
        V = self.val
        if op == "move":
            self.setreg(a[0], V(a[1]))
        elif op in sym.CONC:
            self.setreg(a[0], sym.op(op, *[V(x) for x in a[1:]]))
        elif op == "select":
            self.setreg(a[0], sym.select(sym.truthy(V(a[1])), V(a[2]), V(a[3])))
        elif op == "rand":
            self.rand_n += 1
            self.setreg(a[0], self.read("rand", float(self.rand_n)))
        elif op in ("yield", "hcf"):
            self.effect(op)
            if op == "hcf":
                self.status = "hcf"
        elif op == "sleep":
            self.effect("sleep", V(a[0]))
        # ---- own stack
        elif op == "push":
            sp = self.ctx.concretize(self.regs[16], "sp")
            self.mem.write(sp, V(a[0]))
            self.regs[16] = sp + 1.0
        elif op == "pop":
            sp = self.ctx.concretize(self.regs[16], "sp") - 1.0
            self.regs[16] = sp
            self.setreg(a[0], self.mem.read(sp))
        elif op == "peek":
            sp = self.ctx.concretize(self.regs[16], "sp") - 1.0
            self.setreg(a[0], self.mem.read(sp))
        elif op == "poke":
            self.mem.write(V(a[0]), V(a[1]))
        elif op == "get":
            sfx, d = self.dev(a[1])
            if sfx == "pin" and d == 6.0:
                self.setreg(a[0], self.mem.read(V(a[2])))
            else:
                self.setreg(a[0], self.read("get." + sfx, d, V(a[2])))
        elif op == "getd":
            self.setreg(a[0], self.read("get.ref", V(a[1]), V(a[2])))
        elif op == "put":
            sfx, d = self.dev(a[0])
            if sfx == "pin" and d == 6.0:
                self.mem.write(V(a[1]), V(a[2]))
            else:
                self.effect("put." + sfx, d, V(a[1]), V(a[2]))
        elif op == "putd":
            self.effect("put.ref", V(a[0]), V(a[1]), V(a[2]))
        elif op == "clr":
            sfx, d = self.dev(a[0])
            self.effect("clr." + sfx, d)
        elif op == "clrd":
            self.effect("clr.ref", V(a[0]))
        # ---- device io
        elif op == "l":
            sfx, d = self.dev(a[1])
            self.setreg(a[0], self.read("l." + sfx, d, V(a[2])))
        elif op == "ld":
            self.setreg(a[0], self.read("l.ref", V(a[1]), V(a[2])))
        elif op == "s":
            sfx, d = self.dev(a[0])
            self.effect("s." + sfx, d, V(a[1]), V(a[2]))
        elif op == "sd":
            self.effect("s.ref", V(a[0]), V(a[1]), V(a[2]))
        elif op == "ls":
            sfx, d = self.dev(a[1])
            self.setreg(a[0], self.read("ls." + sfx, d, V(a[2]), V(a[3])))
        elif op == "ss":
            sfx, d = self.dev(a[0])
            self.effect("ss." + sfx, d, V(a[1]), V(a[2]), V(a[3]))
        elif op == "lr":
            sfx, d = self.dev(a[1])
            self.setreg(a[0], self.read("lr." + sfx, d, V(a[2]), V(a[3])))
        elif op == "rmap":
            sfx, d = self.dev(a[1])
            self.setreg(a[0], self.read("rmap." + sfx, d, V(a[2])))
        elif op in ("lb", "lbn", "lbs", "lbns"):
            self.setreg(a[0], self.read(op, *[V(x) for x in a[1:]]))
        elif op in ("sb", "sbn", "sbs"):
            self.effect(op, *[V(x) for x in a])
        elif op in ("sdse", "sdns"):
            sfx, d = self.dev(a[1])
            c = sym.truthy(self.read("devset." + sfx, d))
            self.setreg(a[0], sym.b2v(c if op == "sdse" else sym.bnot(c)))
        elif op in ("ext", "ins"):
            self.setreg(a[0], sym.uf(op, 4)(sym.to_z3(self.regs[a[0][1]]), *[sym.to_z3(V(x)) for x in a[1:]]))
        # ---- set-conditions
        elif op[0] == "s" and op in SIG and SIG[op][0] == "R" and op[1:].rstrip("z") in ("eq", "ne", "lt", "le", "gt", "ge", "ap", "na"):
            c = self._cond(op[1:], [V(x) for x in a[1:]])
            self.setreg(a[0], sym.b2v(c))
        elif op in ("snan", "snanz"):
            c = sym.cond("nan", V(a[1]))
            self.setreg(a[0], sym.b2v(c if op == "snan" else sym.bnot(c)))
        # ---- jumps
        elif op == "j":
            return self._jump(ins, self.target(a[0]))
        elif op == "jal":
            return self._jump(ins, self.target(a[0]), link=True)
        elif op == "jr":
            return self._jump(ins, self.target(a[0]), relative=True)
        elif op[0] == "b":
            return self._branch(op, a, ins)
        else:
            raise Unsupported(f"opcode {op}")
        return None

    def _cond(self, name, vals):
        """name: eq, eqz, ap, apz, ...  ->  bool/BoolRef"""
        if name.endswith("z"):
            base = name[:-1]
            if base in ("ap", "na"):
                return sym.cond(base, vals[0], 0.0, vals[1])
            return sym.cond(base, vals[0], 0.0)
        return sym.cond(name, *vals)

    def _branch(self, op, a, ins):
        relative = op.startswith("br")
        body = op[2:] if relative else op[1:]
        link = body.endswith("al")
        if link:
            body = body[:-2]
        V = self.val
        if body in ("dns", "dse"):
            sfx, d = self.dev(a[0])
            c = sym.truthy(self.read("devset." + sfx, d))
            if body == "dns":
                c = sym.bnot(c)
        elif body in ("dnvl", "dnvs"):
            raise Unsupported(op)
        elif body == "nan":
            c = sym.cond("nan", V(a[0]))
        else:
            c = self._cond(body, [V(x) for x in a[:-1]])
        taken = self.ctx.decide(c)
        if self.monitor is not None:
            self.monitor.branch(self, ins, taken)
        if taken:
            return self._jump(ins, self.target(a[-1]), link=link, relative=relative)
        return None


def canonical(prog: Program):
    """Label-free, token-free form: list of (op, args) over the non-label lines; label operands and
    label lines are replaced by the index (in the label-free numbering) of the next instruction."""
    index_of = {}
    k = 0
    order = []
    for ins in prog.instrs:
        index_of[ins.lineno] = k
        if ins.op not in ("label", "nop"):
            order.append(ins)
            k += 1
    # a numeric jump target is a line number of the text, where every line counts (also blank and
    # comment-only lines): map it to the label-free numbering like a label
    linenos = sorted(index_of)

    def target_index(n):
        if n != int(n) or n < 0:
            return float(n)
        n = int(n)
        nxt = [ln for ln in linenos if ln >= n]
        return float(index_of[nxt[0]]) if nxt else float(k)

    out = []
    for ins in order:
        args = []
        sig = SIG.get(ins.op, "")
        for pos, (kind, payload) in enumerate(ins.args):
            if kind == "label":
                args.append(("num", float(index_of[prog.labels[payload]])))
            elif kind == "num" and pos < len(sig) and sig[pos] == "T":
                args.append(("num", target_index(payload)))
            elif kind == "name":
                args.append(("name", payload))
            else:
                args.append((kind, payload))
        out.append((ins.op, tuple(args)))
    return out


def canonical_numeric_targets(prog: Program):
    """Like canonical(), for text without labels: numeric jump targets are line numbers of the text;
    they are mapped to the label-free numbering as well (nop/blank lines do not count)."""
    return canonical(prog)
