"""Monitors attached to the IC10 machine: shadow call stack (C06) and jump-target correspondence (C05)."""
from __future__ import annotations

from . import sym
from .sym import is_conc


class CallMonitor:
    """Shadow stack of (return pc, sp at call, callee label).  At every `j ra` (a jump through a
    register) the target must be the return address of the call being served and sp must be the
    value at the call, adjusted by the calling convention (push/pop: minus arguments popped by the
    callee plus one pushed result).  Tail `j f` inherits the frame."""

    def __init__(self, func_of_line=None, func_meta=None, push_pop=False):
        self.events = []
        self.shadow = []
        self.func_of_line = func_of_line or {}
        self.func_meta = func_meta or {}
        self.push_pop = push_pop
        self.calls = 0
        self.returns = 0
        self.max_depth = 0

    def before(self, m, ins):
        pass

    def branch(self, m, ins, taken):
        pass

    def jump(self, m, ins, tgt, link):
        a = ins.args[-1] if ins.args else None
        if link:
            callee = self.func_of_line.get(tgt)
            self.shadow.append((m.pc + 1, m.regs[16], callee, ins.lineno))
            self.calls += 1
            self.max_depth = max(self.max_depth, len(self.shadow))
            return
        if a is not None and a[0] == "reg" and a[1] == 17:  # j ra
            self.returns += 1
            if not self.shadow:
                self.events.append(("return_without_call", ins.lineno, ins.raw.strip(), tgt))
                return
            ret, sp_call, callee, call_line = self.shadow.pop()
            if tgt != ret:
                self.events.append(("wrong_return_address", ins.lineno, ins.raw.strip(), tgt, ret, call_line))
            exp = sp_call
            meta = self.func_meta.get(callee) if callee else None
            if self.push_pop and meta is not None:
                exp = sym.op("add", sym.op("sub", sp_call, float(meta["nargs"])), 1.0 if meta["has_ret"] else 0.0)
            if meta is not None or not self.push_pop:
                r = m.ctx.must_equal(m.regs[16], exp)
                if r == "ne":
                    self.events.append(("sp_mismatch", ins.lineno, ins.raw.strip(), _s(m.regs[16]), _s(exp), callee))


def _s(v):
    return repr(v) if is_conc(v) else str(v)
