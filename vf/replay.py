"""./check <ID> --replay <file>: re-run one recorded counterexample concretely against the current tree.
exit 1 + VIOLATION line if it still reproduces, exit 0 otherwise."""
from __future__ import annotations

import json

from . import comp, e1, equiv, ic10, sym


def _say(prop, path, reproduced, msg):
    if reproduced:
        print(f"VIOLATION property={prop} replay={path}")
        print("  " + msg)
        return 1
    print(f"not reproduced on the current tree: {msg}")
    return 0


def _env_of(d):
    rows = None
    for key in ("result", "problem", "event"):
        x = d.get(key)
        if isinstance(x, dict):
            if "env" in x:
                rows = x["env"]
            for dv in x.get("divergences", [])[:1]:
                rows = dv.get("env", rows)
    return equiv.TableEnv(rows or [])


def run(prop: str, path: str) -> int:
    d = json.load(open(path))
    kind = d.get("kind")
    b = equiv.QUICK
    if kind == "src_vs_ic10":
        opts = dict(append_version=False)
        opts.update(d.get("opts") or {})
        cap, prog, problem = e1.compile_and_load(d["sources"], opts, strict=False)
        if problem:
            return _say(prop, path, problem[0] == "load_error", f"{problem}")
        L, R, mm = equiv.run_concrete(equiv.SourceSide(d["sources"]), equiv.IC10Side(prog, cap.main_end), _env_of(d), b)
        return _say(prop, path, mm is not None, mm[1] if mm else "traces agree under the recorded inputs")
    if kind in ("vectors", "ic10_vs_ic10"):
        pr = d.get("problem") or {}
        vec = pr.get("vec") or d.get("opts") or {}
        o1 = dict(append_version=False)
        o2 = dict(append_version=False)
        o2.update(vec)
        src2 = d.get("merged") or d["sources"]
        c1, p1, e1_ = e1.compile_and_load(d["sources"], o1 if kind == "vectors" else o2)
        c2, p2, e2_ = e1.compile_and_load(src2, o2)
        if e1_ or e2_:
            return _say(prop, path, bool(e1_) != bool(e2_), f"compile: {e1_} / {e2_}")
        if pr.get("kind") in ("textual_difference", "pragma_difference"):
            return _say(prop, path, True, "re-run the check: textual comparison is not replayed individually")
        L, R, mm = equiv.run_concrete(equiv.IC10Side(p1, c1.main_end), equiv.IC10Side(p2, c2.main_end), _env_of(d), b)
        return _say(prop, path, mm is not None, mm[1] if mm else "traces agree under the recorded inputs")
    if kind == "monitor":
        opts = dict(append_version=False)
        opts.update(d.get("opts") or {})
        cap, prog, problem = e1.compile_and_load(d["sources"], opts, strict=False)
        if problem:
            return _say(prop, path, True, f"{problem}")
        ev = d.get("event") or {}
        env = _env_of(d)
        cctx = sym.Ctx(concrete_env=env)
        cctx.begin_run([])
        from . import monitors

        mon = monitors.CallMonitor(e1.func_entries(cap), cap.func_meta, bool(cap.effective.get("use_push_pop_functions")))
        m = ic10.Machine(prog, cctx, main_end=cap.main_end, monitor=mon, shadow=e1.shadow_names(cap))
        m.halt_on_fallthrough = False
        m.regions, m.entries = e1.regions(cap), set(e1.func_entries(cap))
        try:
            m.run(max_steps=b.steps, max_effects=b.effects)
        except (sym.PathAbort, sym.BoundHit, sym.Unsupported):
            pass
        evs = [e for e in list(m.events) + mon.events if e[0] == ev.get("kind")]
        return _say(prop, path, bool(evs), f"{ev.get('kind')}: {evs[:1]}")
    if kind in ("loader", "labels", "compact", "recount", "closed"):
        mod = __import__(f"vf.props.{prop.lower()}", fromlist=["x"])
        pr = d.get("problem") or {}
        vec = dict(pr.get("vec") or d.get("opts") or {})
        cap = comp.compile_capture(d["sources"], **vec)
        if not cap.ok:
            return _say(prop, path, False, f"now rejected: {cap.error}")
        try:
            ic10.load(cap.code, e1.lenient_names(d["sources"]))
        except ic10.LoadError as e:
            return _say(prop, path, True, str(e))
        return _say(prop, path, False, "output loads; re-run the check for the full comparison")
    if kind == "fold":
        f = d["finding"]
        from stationeers_pytrapic import utils

        if f.get("inputs") is None:
            return _say(prop, path, True, str(f))
        op = f["op"]
        if op.startswith("u"):
            real = utils.get_unop_instruction(op[1:])[1](*f["inputs"])
        else:
            real = utils.get_binop_instruction(op)[1](*f["inputs"])
        return _say(prop, path, repr(real) == f.get("fold"), f"fold({f['inputs']}) = {real!r}, chip computes {f.get('chip')}")
    if kind in ("share_link", "concrete"):
        from stationeers_pytrapic.types import decode_data, encode_data

        doc = d.get("doc") or (d.get("problem") or {}).get("doc")
        if doc is None:
            print("no document recorded (a symbolic-text obligation): re-run the check")
            return 0
        try:
            enc = encode_data(doc)
            bad = [ch for ch in enc if not (ch.isascii() and (ch.isalnum() or ch in "-_"))]
            back = decode_data(enc)
            return _say(prop, path, bool(bad) or back != doc, f"url-unsafe characters {bad[:5]}" if bad else ("round trip differs" if back != doc else "round trip ok"))
        except Exception as e:
            return _say(prop, path, True, f"round trip raises {type(e).__name__}: {str(e)[:120]}")
    if kind == "directive":
        from .props import c15

        r = c15.replay(d["problem"]["text"], d["base"], d.get("call", "plain"))
        return _say(prop, path, r is not None, str(r))
    print(json.dumps({k: v for k, v in d.items() if k != "sources"}, indent=1, default=str)[:2000])
    print("no concrete replay for this record kind; re-run the check")
    return 0
