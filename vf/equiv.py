"""Trace equivalence of two executable sides (dialect interpreter / IC10 machine) for all inputs
within bounds: path exploration by re-execution, one incremental z3 solver, every sat answer replayed
concretely before it counts."""
from __future__ import annotations

import math
import time
from dataclasses import dataclass, field

import z3

from . import ic10, sym
from .ic10 import Machine, Program
from .source import Interp
from .sym import BoundHit, Ctx, PathAbort, Unsupported, is_conc


@dataclass
class Bounds:
    effects: int = 12
    steps: int = 1500
    paths: int = 128
    timeout_ms: int = 5000
    src_steps: int = 4000

    def as_dict(self):
        return dict(effects_per_path=self.effects, ic10_steps_per_path=self.steps, paths_per_program=self.paths,
                    solver_timeout_ms=self.timeout_ms, source_steps_per_path=self.src_steps)


QUICK = Bounds()
THOROUGH = Bounds(effects=24, steps=6000, paths=1024, timeout_ms=20000, src_steps=16000)


@dataclass
class SideResult:
    trace: list
    status: str
    events: list = field(default_factory=list)
    extra: dict = field(default_factory=dict)


class SourceSide:
    name = "source"

    def __init__(self, sources):
        self.sources = sources

    def run(self, ctx: Ctx, b: Bounds, max_effects=None) -> SideResult:
        it = Interp(ctx, self.sources, max_steps=b.src_steps, max_effects=max_effects or b.effects)
        st = it.run()
        return SideResult(it.trace, st)


class IC10Side:
    name = "ic10"

    def __init__(self, prog: Program, main_end=None, shadow=None, monitor_factory=None, halt_on_fallthrough=True):
        self.prog = prog
        self.main_end = main_end
        self.shadow = shadow
        self.monitor_factory = monitor_factory
        self.halt_on_fallthrough = halt_on_fallthrough

    def run(self, ctx: Ctx, b: Bounds, max_effects=None) -> SideResult:
        mon = self.monitor_factory() if self.monitor_factory else None
        m = Machine(self.prog, ctx, main_end=self.main_end, monitor=mon, shadow=self.shadow)
        m.halt_on_fallthrough = self.halt_on_fallthrough
        st = m.run(max_steps=b.steps, max_effects=max_effects or b.effects)
        ev = list(m.events)
        if mon is not None:
            ev += mon.events
        return SideResult(m.trace, st, ev, {"steps": m.steps})


@dataclass
class Divergence:
    kind: str  # 'effect', 'length', 'event'
    detail: str
    index: int = -1
    confirmed: bool = False
    env: list = field(default_factory=list)  # concrete environment table [(kind,args,epoch,value)]
    left_trace: list = field(default_factory=list)
    right_trace: list = field(default_factory=list)
    decisions: list = field(default_factory=list)


@dataclass
class EquivResult:
    paths: int = 0
    multi_path: bool = False
    divergences: list = field(default_factory=list)  # confirmed only
    spurious: int = 0
    inconclusive: int = 0
    aborted: int = 0
    bound_paths: int = 0
    truncated: bool = False
    unsupported: str | None = None
    events: list = field(default_factory=list)  # monitor events (confirmed or concrete)
    stats: sym.Stats = field(default_factory=sym.Stats)
    effects_compared: int = 0
    max_trace: int = 0
    wall_s: float = 0.0


def _close(a: float, b: float) -> bool:
    if a == b:
        return True
    if math.isnan(a) and math.isnan(b):
        return True
    if math.isinf(a) or math.isinf(b) or math.isnan(a) or math.isnan(b):
        return False
    return abs(a - b) <= 1e-13 * max(abs(a), abs(b))


def compare_concrete(L: SideResult, R: SideResult, left_is_reference=True):
    """-> None or (index, message) for two concrete traces."""
    n = min(len(L.trace), len(R.trace))
    for i in range(n):
        a, b = L.trace[i], R.trace[i]
        if a.kind != b.kind or len(a.args) != len(b.args):
            return i, f"effect {i}: {a.show()} vs {b.show()}"
        for x, y in zip(a.args, b.args):
            if not _close(x, y):
                return i, f"effect {i}: {a.show()} vs {b.show()}"
    return length_mismatch(L, R)


def length_mismatch(L: SideResult, R: SideResult):
    nl, nr = len(L.trace), len(R.trace)
    ended_l = L.status in ("end", "halt", "fallthrough", "hcf", "hang")
    ended_r = R.status in ("end", "halt", "fallthrough", "hcf", "hang")
    if nl == nr:
        return None
    if nl < nr and ended_l:
        return nl, f"right side has extra effect {R.trace[nl].show()} after the left side ended ({L.status})"
    if nr < nl and ended_r:
        return nr, f"left side has extra effect {L.trace[nr].show()} after the right side ended ({R.status})"
    return None


class ModelEnv:
    """Concrete environment defined by a z3 model: value of R_kind(args, epoch) in the model."""

    def __init__(self, model, overrides=None):
        self.model = model
        self.table = {}
        self.overrides = overrides or {}

    def __call__(self, kind, args, epoch):
        k = (kind, tuple(args), epoch)
        if k in self.table:
            return self.table[k]
        if k in self.overrides:
            v = self.overrides[k]
        elif self.model is None:
            v = 0.0
        else:
            f = z3.Function("R_" + kind, *([sym.R] * (len(args) + 2)))
            t = f(*[sym.to_z3(a) for a in args], sym.to_z3(float(epoch)))
            v = sym.z3_to_float(self.model.eval(t, model_completion=True))
        self.table[k] = v
        return v

    def dump(self):
        return [[k[0], list(k[1]), k[2], v] for k, v in self.table.items()]


class TableEnv:
    def __init__(self, rows):
        self.t = {(r[0], tuple(float(x) for x in r[1]), int(r[2])): float(r[3]) for r in rows}
        self.table = {}

    def __call__(self, kind, args, epoch):
        v = self.t.get((kind, tuple(args), epoch), 0.0)
        self.table[(kind, tuple(args), epoch)] = v
        return v

    def dump(self):
        return [[k[0], list(k[1]), k[2], v] for k, v in self.table.items()]


def run_concrete(left, right, env, b: Bounds):
    """Run both sides concretely under env; -> (L, R, mismatch|None)."""
    cctx = Ctx(concrete_env=env)
    cctx.begin_run([])
    try:
        L = left.run(cctx, b)
        me = len(L.trace) + (1 if L.status in ("end", "halt", "fallthrough", "hang") else 0)
        R = right.run(cctx, b, max_effects=max(me, 1))
    finally:
        cctx.end_run()
    return L, R, compare_concrete(L, R)


def check_equiv(left, right, b: Bounds = QUICK, event_filter=None, want_events=False, mem0=None) -> EquivResult:
    """For all inputs within bounds: traces of left and right agree.  Confirmed divergences only."""
    res = EquivResult()
    t0 = time.time()
    ctx = Ctx(timeout_ms=b.timeout_ms, max_paths=b.paths)
    seen_div = set()
    while ctx.work:
        if res.paths >= b.paths:
            res.truncated = True
            break
        prefix = ctx.work.pop()
        ctx.begin_run(prefix)
        if mem0:
            _bind_mem0(ctx, mem0)
        res.paths += 1
        try:
            L = left.run(ctx, b)
            me = len(L.trace) + (1 if L.status in ("end", "halt", "fallthrough", "hang") else 0)
            R = right.run(ctx, b, max_effects=max(me, 1))
            if "bound" in L.status or "bound" in R.status:
                res.bound_paths += 1
            res.max_trace = max(res.max_trace, len(L.trace))
            cands = []
            n = min(len(L.trace), len(R.trace))
            for i in range(n):
                a, c = L.trace[i], R.trace[i]
                if a.kind != c.kind or len(a.args) != len(c.args):
                    cands.append((i, f"effect {i}: {a.show()} vs {c.show()}", None))
                    break
                bad = False
                for x, y in zip(a.args, c.args):
                    if is_conc(x) and is_conc(y):
                        if _close(x, y):
                            continue
                        cands.append((i, f"effect {i}: {a.show()} vs {c.show()}", None))
                        bad = True
                        break
                    r = ctx.must_equal(x, y)
                    if r == "ne":
                        cands.append((i, f"effect {i}: {a.show()} vs {c.show()}", sym.to_z3(x) != sym.to_z3(y)))
                        bad = True
                        break
                    if r == "unknown":
                        res.inconclusive += 1
                res.effects_compared += 1
                if bad:
                    break
            if not cands:
                lm = length_mismatch(L, R)
                if lm:
                    cands.append((lm[0], lm[1], None))
            evs = list(L.events) + list(R.events)
            if event_filter is not None:
                evs = [e for e in evs if event_filter(e)]
            for (i, msg, extra) in cands:
                key = (i, msg)
                if key in seen_div:
                    continue
                seen_div.add(key)
                d = _confirm(ctx, left, right, b, extra, msg, i)
                if d.confirmed:
                    res.divergences.append(d)
                else:
                    res.spurious += 1
            if want_events and evs:
                for e in evs:
                    ek = (e[0], e[1])
                    if ek in seen_div:
                        continue
                    seen_div.add(ek)
                    res.events.append((e, _event_env(ctx)))
        except PathAbort:
            res.aborted += 1
        except BoundHit:
            res.bound_paths += 1
        except Unsupported as e:
            res.unsupported = str(e)
            ctx.end_run()
            break
        finally:
            if res.unsupported is None:
                ctx.end_run()
    res.multi_path = res.paths > 1
    res.inconclusive += ctx.inconclusive
    res.stats = ctx.stats
    res.stats.paths = res.paths
    res.wall_s = time.time() - t0
    return res


def _bind_mem0(ctx, mem0):
    """Assume initial own-stack cells hold given numbers (C03 propagation twin)."""
    for addr, val in mem0.items():
        f = z3.Function("R_mem0", sym.R, sym.R, sym.R)
        t = f(sym.to_z3(float(addr)), sym.to_z3(0.0))
        ctx.bindings[t.get_id()] = (t, float(val))
        ctx.solver.add(t == sym.to_z3(float(val)))


def _event_env(ctx):
    m = ctx.model()
    return m


def _confirm(ctx: Ctx, left, right, b: Bounds, extra, msg, idx) -> Divergence:
    d = Divergence("effect", msg, idx, decisions=list(ctx.decisions))
    t0 = time.time()
    r = ctx.solver.check(*([extra] if extra is not None else []))
    ctx.stats.solver_s += time.time() - t0
    ctx.stats.queries += 1
    if str(r) != "sat":
        return d
    ctx.stats.sat += 1
    model = ctx.solver.model()
    env = ModelEnv(model)
    try:
        L, R, mm = run_concrete(left, right, env, b)
    except (PathAbort, BoundHit, Unsupported) as e:
        d.detail += f" [replay aborted: {e}]"
        return d
    if mm is not None:
        d.confirmed = True
        d.detail = mm[1]
        d.index = mm[0]
        d.env = env.dump()
        d.left_trace = [e.show() for e in L.trace]
        d.right_trace = [e.show() for e in R.trace]
    return d
