"""C04 - register allocation never lets one live value overwrite another (lock-step of the
virtual-register listing and the allocated listing on the symbolic machine)."""
from __future__ import annotations

from .. import comp, e1, gen, harness, probes
from . import base

PROP = "C04"
SOLVER = {'functions_encoded': ['register_assignment.assign_registers (executed, its virtual and physical listings captured)', 'emitted IC10 -> vf.ic10.Machine with shadow registers']}
HDR = base.witness.HDR

ASSUMPTIONS = [
    "the virtual-register listing is the instruction list the real compiler hands to assign_registers (captured by wrapping that name from the harness; the real function runs unchanged)",
    "assertion at every register read of every explored path: value in the physical register == value last written to the same virtual register (z3 under the path condition, then concrete replay)",
    "same input / arithmetic model as C01; loops are followed up to the step bound, so loop-carried clobbers show from the second iteration on",
]


def cfg():
    return gen.Cfg(n_funcs=(1, 3), n_main_stmts=(3, 7), max_depth=3, call_heavy=True)


def pressure_program(n: int, in_function=False, across_call=False) -> str:
    """n values that are simultaneously live (all read after the last one is defined)."""
    lines = [HDR, ""]
    ind = ""
    if across_call:
        lines += ["def g(a):", "    t = a * 2", "    db.Mode = t + a", "    return t + 1", ""]
    if in_function:
        lines += ["def f():"]
        ind = "    "
    for i in range(n):
        lines.append(f"{ind}v{i} = d{i % 6}.{['Setting', 'On', 'Mode', 'Open', 'Lock', 'Activate', 'Pressure'][i % 7]} + {i}")
    if across_call:
        lines.append(f"{ind}w = g(v0)")
        lines.append(f"{ind}db.Open = w")
    lines.append(f"{ind}db.Setting = " + " + ".join(f"v{i}" for i in range(n)))
    # second use keeps every value live across the first sum's temporaries
    lines.append(f"{ind}db.On = " + " - ".join(f"v{i}" for i in reversed(range(n))))
    if in_function:
        lines += ["", "f()", "f()"]
    return "\n".join(lines) + "\n"


def edge_program(n: int, in_func: bool = False) -> str:
    """exactly n values live at the same time and no temporaries: n <= 16 fits the register file"""
    ind = "    " if in_func else ""
    L = [HDR, ""]
    if in_func:
        L += ["def f():"]
    L += [f"{ind}v{i} = d{i % 6}.{['Setting', 'On', 'Mode', 'Open', 'Lock', 'Activate'][(i // 6) % 6]}" for i in range(n)]
    L += [f"{ind}d{i % 6}.Setting = v{i}" for i in range(n)]
    L += [f"{ind}db.Setting = v{n - 1 - i}" for i in range(0, n, 3)]
    if in_func:
        L += ["", "f()", "f()"]
    return "\n".join(L) + "\n"


def run(tier: str) -> int:
    rep = harness.Report(PROP, tier, "exploration")
    rep.assumptions = ASSUMPTIONS
    known = harness.known_for(PROP)
    n = 240 if tier == "thorough" else 36
    items = []
    vecs = [{}, {"inline_functions": False}, {"inline_functions": False, "use_push_pop_functions": True}]
    for vi, vec in enumerate(vecs):
        for sp in base.gen_specs(n // len(vecs), cfg(), tier, salt=11 + vi, opts=vec, extra=dict(shadow=True)):
            items.append(("monitor", sp))
    for name, srcs in base.repo_sources():
        for vec in ({"inline_functions": False}, {}):
            items.append(("monitor", dict(name=name, sources=srcs, tier=tier, strict=False, shadow=True, opts=vec)))
    for k, v in probes.call_probes() + probes.range_probes()[:12] + probes.lifetime_probes() + probes.call_matrix()[::6]:
        for vec in vecs[:2]:
            items.append(("monitor", dict(name=f"probe:{k}", sources=v, tier=tier, shadow=True, opts=vec)))
    # several library modules that keep module-level state in registers
    from . import c13

    multi = [("multi:two_libs", c13.FIXED_MULTI), ("multi:two_counters", {
        "": HDR + "from library import liba\nfrom library import libb\n\nwhile True:\n    yield_()\n    liba.tick()\n    libb.tock()\n    liba.tick()\n    libb.tock()\n",
        "liba": HDR + "\ncount = 0\n\ndef tick():\n    global count\n    count = count + 1\n    d0.Setting = count\n",
        "libb": HDR + "\ntotal = 100\n\ndef tock():\n    global total\n    total = total - 1\n    d1.Setting = total\n"})]
    for i in range(6 if tier == "thorough" else 2):
        srcs_, _f = c13.gen_multi(harness.seed() * 7001 + i + 1)
        multi.append((f"multi:{i}", srcs_))
    for name, srcs in multi:
        for vec in vecs[:2]:
            items.append(("monitor", dict(name=name, sources=srcs, tier=tier, shadow=True, opts=vec)))
    # the same value through an assignment target and directly: both forms go through the same element
    # selection code, only the registers differ (the jump table of lists with 6 or more entries takes two
    # live temporaries)
    twins = []
    for nlist in (3, 5, 6, 7, 8):
        tab = "[" + ", ".join(str(11 * (k + 1)) for k in range(nlist)) + "]"
        twins.append((f"twin:list{nlist}:assign_vs_direct", HDR + f"i = d0.Setting\nx = {tab}[i]\ndb.Setting = x\n", HDR + f"i = d0.Setting\ndb.Setting = {tab}[i]\n"))
        twins.append((f"twin:list{nlist}:in_function", HDR + f"def pick(i):\n    x = {tab}[i]\n    return x\n\ndb.Setting = pick(d0.Setting)\ndb.Mode = pick(1)\n",
                      HDR + f"def pick(i):\n    return {tab}[i]\n\ndb.Setting = pick(d0.Setting)\ndb.Mode = pick(1)\n"))
    for name, a_, b_ in twins:
        items.append(("ic10_vs_ic10", dict(name=name, sources=a_, sources2=b_, opts={}, opts2={}, tier=tier)))
    press = []
    for k in (6, 10, 13, 15, 16, 17, 18, 20, 24):
        for inf in (False, True):
            for ac in (False, True):
                press.append((f"pressure:{k}:{'f' if inf else 'm'}:{'call' if ac else 'nocall'}", pressure_program(k, inf, ac), k))
    for k in (13, 14, 15, 16, 17, 18):
        for inf in (False, True):
            press.append((f"edge:{k}:{'f' if inf else 'm'}", edge_program(k, inf), k))
    for name, src, k in press:
        items.append(("monitor", dict(name=name, sources=src, tier=tier, shadow=True, opts={"inline_functions": False}, need=k)))
    items.append(("monitor", dict(name="witness:ref_id_register", sources=base.witness.WITNESS["ref_id_register"]["src"], tier=tier, shadow=True, witness="ref_id_register")))
    results = harness.pmap(e1.run_task, items)

    reads_total = 0
    rejected = 0
    nontrivial = 0
    for (kind, spec), r in zip(items, results):
        if r["status"] == "harness_error":
            rep.harness_errors.append(f"{spec['name']}: {r.get('detail')}")
        if kind == "ic10_vs_ic10":
            if r["status"] == "divergence":
                path = e1.save_replay(PROP, dict(property=PROP, kind="ic10_vs_ic10", name=spec["name"], sources=spec["sources"], merged=spec["sources2"], opts={}, result=r))
                rep.violation(f"{spec['name']}: the value differs when it goes through an assignment target: {(r.get('divergences') or [{}])[0].get('detail')}", path)
            continue
        if r["status"] == "load_error":
            # a register outside r0-r15 / a leftover virtual name makes the text unloadable
            if "register" in (r.get("detail") or "") or "__register" in (r.get("code") or ""):
                path = e1.save_replay(PROP, dict(property=PROP, kind="monitor", name=spec["name"], sources=spec["sources"], opts=spec.get("opts", {}), result=r))
                rep.violation(f"{spec['name']}: emitted register operand is not r0-r15: {r.get('detail')}", path)
            continue
        if spec.get("need"):
            if r["status"] == "compile_error":
                rejected += 1
                if "registers" not in (r.get("detail") or ""):
                    rep.notes.append(f"note: {spec['name']} rejected with: {r.get('detail')}")
            elif r["status"] == "load_error":
                pass  # reported above
            elif spec["need"] > 16:
                path = e1.save_replay(PROP, dict(property=PROP, kind="monitor", name=spec["name"], sources=spec["sources"], opts=spec.get("opts", {}), result=r))
                rep.violation(f"{spec['name']}: needs {spec['need']} simultaneously live values but was not rejected", path)
        if r["status"] in ("ok", "events"):
            nontrivial += 1
            rr = r.get("returned_registers")
            if rr is not None and any((not isinstance(x, int)) or x < 0 or x > 15 for x in rr):
                path = e1.save_replay(PROP, dict(property=PROP, kind="monitor", name=spec["name"], sources=spec["sources"], result=r))
                rep.violation(f"{spec['name']}: allocator returned registers outside 0..15: {rr}", path)
        for e in r.get("events", []):
            if e["kind"] not in ("clobber", "uninit_read"):
                continue
            k = None
            if "witness" in spec:
                k = next((x for x in known if x.get("witness") == spec["witness"]), None)
            else:
                k = next((x for x in known if x.get("program") == spec["name"]), None)
            if k is not None:
                rep.known(f"{k['id']} {k['what']} [{spec['name']}]")
                continue
            path = e1.save_replay(PROP, dict(property=PROP, kind="monitor", name=spec["name"], sources=spec["sources"], opts=spec.get("opts", {}), event=e, code=r.get("code")))
            rep.violation(f"{spec['name']}: {e['kind']} at line {e['line']}: {e['detail']}", path)
    # registers are allocated statically per function: a function that can be active twice at the same
    # time (direct / mutual recursion) would keep both activations' values in the same registers, so
    # such programs must be rejected (the shadow check cannot see it: both activations also share the
    # virtual names)
    from . import c06
    from .. import comp

    rec = {}
    for rname, rsrc in c06.RECURSION.items():
        for vec in vecs:
            cap = comp.compile_capture(rsrc, append_version=False, **vec)
            rec[f"{rname}:{vec}"] = "rejected" if not cap.ok else "compiled"
            if cap.ok:
                path = e1.save_replay(PROP, dict(property=PROP, kind="closed", name=f"recursion:{rname}", sources=rsrc, opts=vec, code=cap.code))
                rep.violation(f"recursion:{rname} {vec}: a recursive function was compiled: two live activations share one static register frame", path)
    from .c07 import _sum_solver

    rep.coverage = dict(
        recursion=rec,
        evaluations=len(results),
        distinct_nontrivial=nontrivial,
        rule="programs = seeded call-heavy generator x 3 option vectors + repository sources x 2 vectors + register-pressure family (k simultaneously live values, k in 6..24, in main / in a function, with / without a call in between); non-trivial = compiled and executed in lock-step with >= 1 register read checked; k > 16 members must be rejected",
        samples=[dict(name=press[5][0], source=press[5][1])],
        by_status=base.count_by(results),
        pressure_rejected=rejected,
        bounds=e1.bounds_for(tier).as_dict(),
        paths=sum((r.get("stats") or {}).get("paths", 0) for r in results),
        machine_steps=sum((r.get("stats") or {}).get("steps", 0) for r in results),
        solver=_sum_solver(results),
    )
    return rep.finish()
