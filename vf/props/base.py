"""Helpers shared by the property checks."""
from __future__ import annotations

import os

import ast
import glob
from pathlib import Path

from .. import e1, gen, harness, witness

REPO = Path(os.environ.get("VERIF_REPO", "/repo"))


def repo_sources():
    """Every program of the repository's own tests/examples: (name, sources) with library modules
    resolved like test/test_libraries.py does."""
    out = []
    for f in sorted(glob.glob(str(REPO / "src/stationeers_pytrapic/examples/*.py"))):
        if "__init__" in f:
            continue
        out.append(("examples/" + Path(f).name, Path(f).read_text()))
    for f in sorted(glob.glob(str(REPO / "test/cases/*.py"))):
        out.append(("test/cases/" + Path(f).name, Path(f).read_text()))
    for f in sorted(glob.glob(str(REPO / "test/mod_scripts/*.py"))):
        src = Path(f).read_text()
        mods = {"": src}
        try:
            for node in ast.parse(src).body:
                if isinstance(node, ast.ImportFrom) and node.module == "library":
                    for al in node.names:
                        lib = REPO / "test/mod_libraries" / (al.name + ".py")
                        if lib.exists():
                            mods[al.name] = lib.read_text()
        except SyntaxError:
            continue
        out.append(("test/mod_scripts/" + Path(f).name, mods))
    return out


def gen_specs(n: int, cfg=None, tier="quick", salt=0, opts=None, extra=None):
    base = harness.seed() * 1_000_003 + salt * 10_007
    specs = []
    for i in range(n):
        s = base + i
        src, feats = gen.generate(s, cfg)
        sp = dict(name=f"gen:{s}", sources=src, features=feats, tier=tier, opts=dict(opts or {}), gen_seed=s)
        if extra:
            sp.update(extra)
        specs.append(sp)
    return specs


def witness_specs(names, tier="quick", opts=None):
    return [dict(name=f"witness:{n}", sources=witness.WITNESS[n]["src"], tier=tier, opts=dict(opts or {}), witness=n)
            for n in names]


def count_by(results, key="status"):
    d = {}
    for r in results:
        d[r.get(key)] = d.get(r.get(key), 0) + 1
    return d


def feature_histogram(results, ok_only=True):
    h = {}
    for r in results:
        if ok_only and r.get("status") != "ok":
            continue
        for f in r.get("features", []):
            h[f] = h.get(f, 0) + 1
    return dict(sorted(h.items()))


def solver_totals(results):
    t = dict(queries=0, sat=0, unsat=0, unknown=0, solver_s=0.0, paths=0)
    for r in results:
        st = r.get("stats") or {}
        st = st.get("solver", st)
        for k in t:
            v = st.get(k, 0) if isinstance(st, dict) else 0
            if k == "paths":
                v = r.get("paths", (r.get("stats") or {}).get("paths", 0)) or 0
            t[k] += v
    t["solver_s"] = round(t["solver_s"], 2)
    return t


def sample_programs(results, n=2):
    out = []
    for r in results:
        if r.get("status") == "ok" and r.get("multi_path"):
            out.append(r)
        if len(out) >= n:
            break
    return out


def match_known(known, name, prop_results=None):
    """Known finding entry whose 'program' equals the spec name."""
    for k in known:
        if k.get("program") == name:
            return k
    return None
