"""C13 - library modules behave like the same code written in the main file."""
from __future__ import annotations

import ast
import random

from .. import comp, e1, gen, harness
from . import base

PROP = "C13"
SOLVER = {'functions_encoded': ['compile_code on split and merged sources (executed)', 'emitted IC10 pairs -> vf.ic10.Machine, trace equivalence; split program vs vf.source.Interp']}
HDR = base.witness.HDR

ASSUMPTIONS = [
    "each multi-module program {'' : main, m1: .., m2: ..} is compared (IC10 vs IC10, all inputs, z3) with the single file obtained mechanically (stdlib ast): library top-level code first in import order, every library-level name N of module alias A renamed to A_N, `A.f(...)` calls renamed to `A_f(...)`, `if __name__ == \"__main__\"` blocks of libraries replaced by their else suite (if any); the multi-module output is also compared with the dialect interpreter, which gives each module its own globals",
    "labels are kept (remove_labels=False): with labels removed, equal function names in different modules hit the known label-substitution finding of C05",
    "same input / arithmetic model and generator gates as C01",
]


class _Prefixer(ast.NodeTransformer):
    def __init__(self, names, prefix):
        self.names = names
        self.prefix = prefix

    def visit_Name(self, node):
        if node.id in self.names:
            return ast.copy_location(ast.Name(self.prefix + node.id, node.ctx), node)
        return node

    def visit_FunctionDef(self, node):
        # parameters / locals shadow module names
        local = {a.arg for a in node.args.args}
        declared_global = set()
        for n in ast.walk(node):
            if isinstance(n, ast.Global):
                declared_global |= set(n.names)
        for n in ast.walk(node):
            if isinstance(n, ast.Name) and isinstance(n.ctx, ast.Store) and n.id not in declared_global:
                local.add(n.id)
        inner = _Prefixer(self.names - local, self.prefix)
        node.body = [inner.visit(st) for st in node.body]
        if node.name in self.names:
            node.name = self.prefix + node.name
        return node

    def visit_Global(self, node):
        node.names = [self.prefix + n if n in self.names else n for n in node.names]
        return node


def module_level_names(tree):
    names = set()
    for st in tree.body:
        if isinstance(st, ast.FunctionDef):
            names.add(st.name)
        elif isinstance(st, (ast.Assign, ast.AugAssign)):
            for n in ast.walk(st):
                if isinstance(n, ast.Name) and isinstance(n.ctx, ast.Store):
                    names.add(n.id)
        elif isinstance(st, (ast.If, ast.For, ast.While)):
            for n in ast.walk(st):
                if isinstance(n, ast.Name) and isinstance(n.ctx, ast.Store):
                    names.add(n.id)
    for n in ast.walk(tree):
        if isinstance(n, ast.Global):
            names |= set(n.names)
    return names


def _is_main_guard(st):
    return (isinstance(st, ast.If) and isinstance(st.test, ast.Compare) and isinstance(st.test.left, ast.Name)
            and st.test.left.id == "__name__")


class _CallRenamer(ast.NodeTransformer):
    def __init__(self, aliases):
        self.aliases = aliases

    def visit_Attribute(self, node):
        self.generic_visit(node)
        if isinstance(node.value, ast.Name) and node.value.id in self.aliases:
            return ast.copy_location(ast.Name(node.value.id + "_" + node.attr, node.ctx), node)
        return node


def merge(sources: dict) -> str:
    main = ast.parse(sources[""])
    order = []
    for st in main.body:
        if isinstance(st, ast.ImportFrom) and st.module == "library":
            for al in st.names:
                order.append((al.name, al.asname or al.name))
    body = []
    for name, alias in order:
        t = ast.parse(sources[name])
        names = module_level_names(t)
        nb = []
        for st in t.body:
            if isinstance(st, (ast.Import, ast.ImportFrom)):
                continue
            if _is_main_guard(st):
                nb += list(st.orelse)  # the guard is false in an imported module: its else suite runs
                continue
            nb.append(st)
        t.body = nb
        t = _Prefixer(names, alias + "_").visit(t)
        body += t.body
    aliases = {a for _, a in order}
    mb = [st for st in main.body if not (isinstance(st, ast.ImportFrom) and st.module == "library")]
    m2 = _CallRenamer(aliases).visit(ast.Module(body=mb, type_ignores=[]))
    hdr = [st for st in m2.body if isinstance(st, (ast.Import, ast.ImportFrom))]
    rest = [st for st in m2.body if not isinstance(st, (ast.Import, ast.ImportFrom))]
    mod = ast.Module(body=hdr + body + rest, type_ignores=[])
    ast.fix_missing_locations(mod)
    return ast.unparse(mod) + "\n"


def gen_library(seed, cfg=None):
    g = gen.Gen(seed, cfg or gen.Cfg(n_funcs=(1, 3), max_depth=2, n_main_stmts=(0, 2), main_loop=0.0))
    r = g.r
    out = [HDR, ""]
    gsc = gen.Scope(g, False)
    have_reg_global = False
    for _ in range(r.randrange(1, 3)):
        name = g.fresh("G")
        # at most one register-resident global per library and no temporaries at library top level:
        # library globals get line-based lifetimes and may share registers (known finding)
        if r.random() < 0.4 or have_reg_global:
            out.append(f"{name} = {g.const()}")
            g.constish_vars.add(name)
        else:
            have_reg_global = True
            # attribute chains deeper than two are rejected at library top level (known finding)
            out.append(f"{name} = d{r.randrange(6)}.{r.choice(gen.LOGIC_R)}")
        g.global_vars.append(name)
        gsc.vars.append(name)
    out.append("")
    for _ in range(r.randrange(1, 3)):
        out += g.function()
        out.append("")
    # an uncalled function and a __main__ block: both must contribute nothing - in particular the
    # constants they assign to the library's globals must not reach the live reads of those globals
    consts = [v for v in g.global_vars if v in g.constish_vars]
    out += ["def never_called(a):"] + ([f"    global {consts[0]}", f"    {consts[0]} = {r.randrange(200, 300)}"] if consts else []) + ["    d5.Setting = a + 99", "    return a", ""]
    for _ in range(r.randrange(0, 3)):
        out.append(f"d{r.randrange(6)}.{r.choice(gen.LOGIC_RW)} = {r.choice(gsc.vars)}")
    out += ["", 'if __name__ == "__main__":', "    d4.Setting = 12345"] + [f"    {c} = {r.randrange(300, 400)}" for c in consts[-1:]]
    if g.funcs:
        f = g.funcs[0]
        out.append(f"    {f[0]}({', '.join('1' for _ in range(f[1]))})")
    return "\n".join(out) + "\n", list(g.funcs), sorted(g.features)


def gen_multi(seed):
    r = random.Random(seed)
    n_mod = r.choice([1, 2, 2, 3])
    sources = {}
    imports = []
    ext_funcs = []
    feats = set()
    for i in range(n_mod):
        mname = f"lib{i}"
        src, funcs, f = gen_library(seed * 31 + i)
        sources[mname] = src
        feats |= set(f)
        alias = mname if r.random() < 0.6 else f"al{i}"
        imports.append(f"from library import {mname}" + (f" as {alias}" if alias != mname else ""))
        for (fn, nargs, has_ret) in funcs:
            ext_funcs.append((f"{alias}.{fn}", nargs, has_ret))
    g = gen.Gen(seed * 31 + 17, gen.Cfg(n_funcs=(0, 2), max_depth=2, n_main_stmts=(2, 5), call_heavy=True))
    g.late_funcs = list(ext_funcs)  # the compiler resolves `alias.f(...)` only at the main file's top level
    body = g.program().split("\n")
    # put the library imports right after the symbols import
    body = [body[0]] + imports + body[1:]
    sources[""] = "\n".join(body)
    feats |= g.features
    return sources, sorted(feats)


WITNESS = {
    "lib_attr_chain": ({"": HDR + "from library import lib0\nlib0.f()\n", "lib0": HDR + "\nG = Batteries.Charge.Maximum\n\ndef f():\n    db.Setting = G\n"},
                       "an attribute chain of depth 3 at the top level of a library module is rejected ('Module has no attribute')"),
    "lib_global_lifetime": ({"": HDR + "from library import lib0\nlib0.show()\nlib0.show()\n",
                             "lib0": HDR + "\nG1 = d1.Power\nG2 = d4.Ratio\nd4.Lock = G2 + 0\nd1.Activate = G2 + 1\n\ndef show():\n    db.Setting = G1\n    db.Mode = G2\n"},
                            "globals of a library module get line-based lifetimes: a later top-level temporary reuses the register of a global that functions still read"),
    "lib_pushpop_call": ({"": HDR + "from library import lib0\n\nlib0.run(d0.Setting)\nlib0.run(2)\ndb.On = 1\n",
                          "lib0": HDR + "\ndef show(v):\n    db.Setting = v\n\ndef run(v):\n    show(v)\n    show(v + 1)\n    db.Mode = v\n"},
                         "use_push_pop_functions: a library function that makes a call saves ra (push ra) but never restores it - the end label is searched by the bare function name while the label carries the module prefix"),
    "lib_call_in_function": ({"": HDR + "from library import lib0\n\ndef g(x):\n    lib0.f(x)\n\ng(d0.Setting)\ng(1)\n", "lib0": HDR + "\ndef f(a):\n    db.Setting = a\n"},
                             "a library function called from inside a function of the main file is rejected ('Calling undefined function')"),
}

# a library whose stand-alone block / never-called function assign other constants to its globals
FIXED_DEAD_CONST = {
    "": HDR + """from library import thermo
from library import modes as md

while True:
    yield_()
    thermo.update()
    md.update()
""",
    "thermo": HDR + """
threshold = 50

def update():
    db.Setting = d0.Temperature > threshold
    db.Mode = threshold + 1

if __name__ == "__main__":
    threshold = 20
    while True:
        update()
""",
    "modes": HDR + """
mode = 1

def set_fast():
    global mode
    mode = 2

def update():
    d1.Setting = mode * 10
""",
}

# top-level library code with visible effects: runs in import order, not in name order
FIXED_IMPORT_ORDER = {
    "": HDR + """from library import zeta
from library import alpha as beta
from library import mid as aaa

db.Mode = 1
zeta.bump()
beta.bump()
aaa.bump()
""",
    "zeta": HDR + "\ncount = 0\ndb.Setting = 5\n\ndef bump():\n    global count\n    count = count + 1\n    db.On = count\n",
    "alpha": HDR + "\ncount = 100\ndb.Setting = db.Setting * 2\n\ndef bump():\n    global count\n    count = count + 1\n    db.Open = count\n",
    "mid": HDR + "\ncount = 7\ndb.Setting = db.Setting + 3\n\ndef bump():\n    global count\n    count = count + 1\n    db.Lock = count\n",
}

# function names inside one library that are suffixes of each other (the merged program's names carry
# the module prefix, so label searches by suffix behave differently in the two programs)
FIXED_SUFFIX_LIB = {
    "": HDR + """from library import a
from library import other as b

while True:
    yield_()
    db.Setting = a.step(d0.Setting)
    db.Mode = a.step(2)
    db.Open = b.update(d1.Setting)
    db.Lock = b.update(3)
""",
    "a": HDR + """
def bump(v):
    db.On = v

def prestep(v):
    return v * 2

def step(v):
    w = prestep(v)
    bump(w)
    bump(w + 1)
    return w * 3
""",
    "other": HDR + """
def note(v):
    d2.Setting = v

def reupdate(v):
    if v > 5:
        return v
    return v + 1

def update(v):
    w = reupdate(v)
    note(w)
    note(w + 1)
    return w - 1
""",
}

# a library whose stand-alone guard has an else suite (code for the imported case)
FIXED_GUARD_ELSE = {
    "": HDR + "from library import m as lib\n\nwhile True:\n    yield_()\n    lib.update(d0.Setting)\n    db.Mode = 1\n",
    "m": HDR + "\ngain = 1\n\ndef update(v):\n    db.Setting = v * gain\n    d1.Setting = gain + 10\n\nif __name__ == \"__main__\":\n    while True:\n        update(1)\nelse:\n    gain = 3\n    d2.Setting = 222\n",
}

# several libraries named in one import statement (with and without alias), one of them imported only for
# its top-level code
FIXED_MULTI_NAME_IMPORT = {
    "": HDR + "from library import setup, pump as p, gauge\n\nwhile True:\n    yield_()\n    p.run(d1.Setting)\n    gauge.show(d1.Setting)\n",
    "setup": HDR + "\nwarmup = 3\nd0.On = 1\nd0.Setting = warmup\n",
    "pump": HDR + "\ndef run(v):\n    d2.Setting = v + 5\n",
    "gauge": HDR + "\nd3.On = 1\n\ndef show(v):\n    d3.Setting = v\n",
}

FIXED_MULTI = {
    "": HDR + """from library import lib0
from library import lib1 as other

counter = 5

def show(v):
    db.Setting = v + counter

lib0.init()
other.init()
while True:
    yield_()
    lib0.step(d0.Setting)
    other.step(d1.Setting)
    show(d2.Setting)
    counter = counter + 1
""",
    "lib0": HDR + """
counter = 0

def init():
    global counter
    counter = 10
    d3.Setting = counter

def step(x):
    global counter
    counter = counter + x
    d3.Mode = counter

def unused():
    d5.On = 1

if __name__ == "__main__":
    init()
    d5.Setting = 777
""",
    "lib1": HDR + """
counter = d4.Setting

def init():
    d4.Mode = counter

def step(x):
    if x > counter:
        d4.On = 1
    else:
        d4.On = 0

d4.Open = counter

if __name__ == "__main__":
    step(3)
""",
}


# names that mean one thing in the main file and another in a library: a device object / alias / constant /
# function of the main file whose name is also an ordinary global (or local, parameter) of a library that
# declares no object of that kind itself
FIXED_SHADOWED_NAMES = {
    "": HDR + """
from library import a, b

sensor = DaylightSensor(d0)
lamp = GrowLight(d1, alias="LAMP")
LIMIT = 5
level = d2.Setting

def scale(v):
    return v * 3

a.feed(sensor.SolarAngle)
a.feed(scale(level))
b.tick(LIMIT)
b.tick(level)
lamp.On = a.total()
db.Setting = sensor.Vertical + b.report(2)
""",
    "a": HDR + """
sensor = 1
level = 0

def feed(v):
    global sensor, level
    level = level + v
    sensor = sensor + level
    d3.Setting = sensor

def total():
    return sensor + level
""",
    "b": HDR + """
lamp = d4.Setting
LIMIT = 40

def scale(v):
    return v + lamp

def tick(v):
    global lamp
    lamp = scale(v) + LIMIT
    d5.Setting = lamp

def report(level):
    return lamp * level + LIMIT
""",
}


def run(tier: str) -> int:
    rep = harness.Report(PROP, tier, "translation_validation")
    rep.assumptions = ASSUMPTIONS
    known = harness.known_for(PROP)
    n = 150 if tier == "thorough" else 20
    progs = [("fixed:two_libs", FIXED_MULTI, []), ("fixed:dead_constants", FIXED_DEAD_CONST, []), ("fixed:import_order", FIXED_IMPORT_ORDER, []), ("fixed:suffix_names_in_library", FIXED_SUFFIX_LIB, []), ("fixed:guard_else", FIXED_GUARD_ELSE, []), ("fixed:multi_name_import", FIXED_MULTI_NAME_IMPORT, []), ("fixed:shadowed_names", FIXED_SHADOWED_NAMES, [])]
    for i in range(n):
        seed = harness.seed() * 9973 + i + 1
        srcs, feats = gen_multi(seed)
        progs.append((f"multi:{seed}", srcs, feats))
    for wname, (wsrc, what) in WITNESS.items():
        progs.append((f"witness:{wname}", wsrc, []))
    # thorough: every second vector with labels kept; tail_call_optimization is left to C02 / C06 (its
    # recorded ra finding is gated per option vector there, the module generator is vector-agnostic)
    vecs = [{}, {"inline_functions": False}] if tier == "quick" else [v for v in comp.all_option_vectors() if not v["remove_labels"] and not v["tail_call_optimization"]]
    items = []
    for name, srcs, feats in progs:
        try:
            merged = merge(srcs)
        except Exception as e:
            rep.harness_errors.append(f"{name}: merge failed: {e}")
            continue
        wvecs = vecs + ([{"inline_functions": False, "use_push_pop_functions": True}] if name == "witness:lib_pushpop_call" and tier == "quick" else [])
        for vi, vec in enumerate(wvecs):
            if vec.get("use_push_pop_functions") and name.startswith(("multi:", "fixed:suffix_names_in_library")):
                continue  # recorded finding (witness lib_pushpop_call): library functions with calls under push/pop
            items.append(("ic10_vs_ic10", dict(name=f"{name}@{vi}", sources=srcs, sources2=merged, opts=vec, opts2=vec, tier=tier, features=feats)))
        items.append(("src_vs_ic10", dict(name=f"{name}@src", sources=srcs, tier=tier, features=feats, opts=vecs[-1])))
    results = harness.pmap(e1.run_task, items)
    programs = 0
    for (kind, spec), r in zip(items, results):
        if r["status"] == "harness_error":
            rep.harness_errors.append(f"{spec['name']}: {r.get('detail')}")
        if r["status"] in ("ok", "divergence"):
            programs += 1
        if r["status"] == "compile_mismatch" and "Running out of registers" in (r.get("detail") or ""):
            continue  # register pressure differs between the split and the merged program: not a behaviour
        if r["status"] in ("divergence", "compile_mismatch"):
            k = next((x for x in known if x.get("program") == spec["name"].split("@")[0]), None)
            if k is not None:
                rep.known(f"{k['id']} {k['what']}")
                continue
            path = e1.save_replay(PROP, dict(property=PROP, kind=kind, name=spec["name"], sources=spec["sources"], merged=spec.get("sources2"), opts=spec.get("opts"), result=r))
            d = (r.get("divergences") or [{}])[0]
            rep.violation(f"{spec['name']} {spec.get('opts')}: {r['status']}: {d.get('detail', r.get('detail'))}", path)
    tot = base.solver_totals(results)
    rep.coverage = dict(
        programs=programs,
        disagreements_checked=sum(len(r.get("divergences", [])) + r.get("spurious", 0) for r in results),
        samples=[dict(name=progs[1][0], modules=progs[1][1], merged=merge(progs[1][1]))],
        by_status=base.count_by(results),
        bounds=e1.bounds_for(tier).as_dict(),
        paths=tot["paths"], queries=tot, multi_path=sum(1 for r in results if r.get("multi_path")),
        features=base.feature_histogram(results),
        exhaustive=False,
    )
    return rep.finish()
