"""C02 - every combination of compile options preserves behaviour."""
from __future__ import annotations

import itertools

from .. import comp, e1, gen, harness, probes
from . import base
from .c06 import FIXED

HDR = base.witness.HDR

PROP = "C02"
SOLVER = {'functions_encoded': ['stationeers_pytrapic.compiler.compile_code under 32 option vectors (executed; outputs are the object of the encoding)', 'emitted IC10 programs -> vf.ic10.Machine (symbolic), pairwise trace equivalence']}

ASSUMPTIONS = [
    "each program is compiled under all 2^5 vectors of (inline_functions, remove_labels, compact, tail_call_optimization, use_push_pop_functions); outputs are loaded and reduced to a label-free, token-free canonical form; one representative per distinct canonical program is compared with the default vector's output on the symbolic IC10 machine (all inputs, z3) - vectors with identical canonical form are equal by construction",
    "original_code_as_comment / generated_comments / append_version are checked textually on top (comments stripped -> identical instruction text); the pragma route must give the same instruction text as the API route",
    "programs do not touch own-stack cells >= 480 or below 100 (reserved for the two calling conventions) and do not read sp",
    "a vector rejected with 'Running out of registers' is not an output and is skipped (counted)",
    "same input / arithmetic model as C01; generator gates as in C01 (incl. the tail-call finding of C06)",
]

TEXTUAL = [dict(zip(("original_code_as_comment", "generated_comments", "append_version"), v)) for v in itertools.product((False, True), repeat=3)]


ALL_LINES_COMMENTED = (HDR + "level = d0.Setting  # the level of the tank in percent, read once per tick\nif level > 5:  # above the minimum level the pump may run\n"
                  "    d1.Setting = 1  # switch the pump on while there is enough liquid\nd2.Setting = level  # show the level on the display\n"
                  "if level > 90:  # close the inlet valve when the tank is nearly full\n    d3.Setting = level  # report the level that closed the inlet valve\n"
                  "d4.Setting = 0  # the last statement of the program, also with a long comment\n")

def cfg():
    return gen.Cfg(n_funcs=(1, 4), n_main_stmts=(2, 5), call_heavy=True, max_depth=2)


def run(tier: str) -> int:
    rep = harness.Report(PROP, tier, "translation_validation")
    rep.assumptions = ASSUMPTIONS
    known = harness.known_for(PROP)
    vectors = comp.all_option_vectors()
    n = 120 if tier == "thorough" else 12
    progs = [(f"fixed:{k}", v, []) for k, v in FIXED.items()]
    # every emitted line is the first instruction of its own (long) source line: with source comments on
    # no line has room for the version note
    progs.append(("fixed:all_lines_commented", ALL_LINES_COMMENTED, []))
    for hn in ("ItemIronIngot", "StructureSolarPanel"):
        progs.append((f"fixed:hash_arith:{hn}", HDR + f'k = HASH("{hn}")\ndb.Setting = HASH("{hn}") + 1\ndb.Mode = -HASH("{hn}")\ndb.On = k * 2 + d0.Setting\nif HASH("{hn}") < 0:\n    db.Open = 1\nelse:\n    db.Open = 2\n', []))
    progs += [(f"probe:{k}", v, []) for k, v in probes.call_probes() + probes.call_matrix()]
    for sp in base.gen_specs(n, cfg(), tier, salt=23):
        progs.append((sp["name"], sp["sources"], sp["features"]))
    for sp in base.gen_specs(n // 2, None, tier, salt=29):
        progs.append((sp["name"], sp["sources"], sp["features"]))
    items = []
    tex_on = [{}, {"inline_functions": False}, {"remove_labels": True, "compact": True}] if tier == "quick" else vectors[::3]
    for i, (name, src, feats) in enumerate(progs):
        items.append(("vectors", dict(
            name=name, sources=src, features=feats, tier=tier, vectors=vectors, base={},
            textual=TEXTUAL if (tier == "thorough" or i % 3 == 0 or name.startswith("fixed:")) else TEXTUAL[-1:],
            textual_on=tex_on + ([{"remove_labels": True}, {"remove_labels": True, "inline_functions": False}] if name.startswith("fixed:") else []),
            pragma=vectors if tier == "thorough" else [vectors[(i * 7 + j * 5) % 32] for j in range(4)],
            timeout=180 if tier == "thorough" else 90)))
    results = harness.pmap(e1.run_task, items)
    programs = 0
    disagreements = 0
    for (kind, spec), r in zip(items, results):
        if r["status"] == "harness_error":
            rep.harness_errors.append(f"{spec['name']}: {r.get('detail')}")
        if r["status"] == "ok":
            programs += 1
        for pr in r.get("problems", []):
            if pr["kind"] in ("unsupported", "compile_error"):
                continue
            disagreements += 1
            k = _known(known, spec["name"], pr)
            if k is not None:
                rep.known(f"{k['id']} {k['what']}")
                continue
            path = e1.save_replay(PROP, dict(property=PROP, kind="vectors", name=spec["name"], sources=spec["sources"], problem=pr))
            rep.violation(f"{spec['name']} {pr.get('vec')}: {pr['kind']}: {str(pr.get('detail'))[:200]}", path)
    tot = dict(queries=0, sat=0, unsat=0, unknown=0, solver_s=0.0)
    for r in results:
        for k in tot:
            tot[k] += (r.get("stats") or {}).get(k, 0)
    tot["solver_s"] = round(tot["solver_s"], 2)
    rep.coverage = dict(
        programs=programs,
        disagreements_checked=disagreements + sum(r.get("spurious", 0) for r in results),
        samples=[dict(name=progs[3][0], source=progs[3][1], vectors="all 32 of " + ",".join(comp.SEMANTIC_OPTIONS))],
        option_vectors=len(vectors),
        compiled_outputs=sum(r.get("compiled", 0) for r in results),
        rejected_outputs=sum(r.get("rejected", 0) for r in results),
        distinct_canonical_programs=sum(r.get("groups", 0) for r in results),
        equivalence_runs=sum(r.get("equiv_runs", 0) for r in results),
        paths=sum(r.get("paths", 0) for r in results),
        effects_compared=sum(r.get("effects_compared", 0) for r in results),
        textual_option_checks=sum(r.get("textual_checked", 0) for r in results),
        pragma_route_checks=sum(r.get("pragma_checked", 0) for r in results),
        by_status=base.count_by(results),
        bounds=e1.bounds_for(tier).as_dict(),
        queries=tot,
        inconclusive=sum(r.get("inconclusive", 0) for r in results),
        exhaustive=False,
    )
    return rep.finish()


def _known(known, name, pr):
    for k in known:
        w = k.get("when") or {}
        if w.get("program") and w["program"] != name:
            continue
        if w.get("kind") and w["kind"] != pr["kind"]:
            continue
        vec = pr.get("vec") or {}
        if all(bool(vec.get(a)) == b for a, b in (w.get("opts") or {}).items()):
            return k
    return None
