"""C01 - compiled IC10 behaves like the source (translation validation, E1)."""
from __future__ import annotations

from .. import e1, equiv, gen, harness, ic10, comp, probes
from . import base

PROP = "C01"
WITNESSES = ["chained_comparison", "for_var_after_loop", "named_batch_slot_store", "for_target_reuse", "name_alias", "jump_table", "for_continue", "break_nested", "break_in_forlist", "list1_dynamic", "forlist_nested", "forlist_call", "inline_arg_alias", "if_not_constant",
             "ref_id_register", "loop_bound_mutation"]

TWIN_A = base.witness.HDR + """
x = d0.Setting
if x < 0.25:
    db.Setting = 1
else:
    db.Setting = 2
"""
TWIN_B = TWIN_A.replace("x < 0.25", "x <= 0.25")

ASSUMPTIONS = [
    "inputs are finite non-NaN doubles; arithmetic is modelled over the reals (add/sub/mul,div by constant linear, mod by positive integer constant and floor/ceil/trunc via to_int, everything else uninterpreted); every sat answer is replayed concretely with IEEE doubles before it is reported",
    "environment model: a read is a function of (instruction kind, device, logic/slot/batch operands, epoch); the epoch advances at every externally visible effect; two reads of the same key with no effect in between agree",
    "the game's implicit pause after 128 instructions per tick is not modelled",
    "a program whose own-stack use touches cells >= 480 or sp is outside the family",
    "and/or are eager IC10 instructions; operands with effects are not generated",
    "constant-list index inputs are integers within the list; range() arguments read from devices are arbitrary reals compared like the compiled loop does",
    "C01 compares effect traces up to the end of the top-level script; what runs afterwards is C07",
    "generator gates (constructs never emitted because the pinned tree miscompiles them, each with a witness): " + ", ".join(sorted(gen.GATES)),
]


def twin_check(b):
    """Reachability witness: the solver must find the boundary input separating `<` from `<=`."""
    cap = comp.compile_capture(TWIN_B, append_version=False)
    if not cap.ok:
        return False, "twin does not compile"
    prog = ic10.load(cap.code)
    r = equiv.check_equiv(equiv.SourceSide(TWIN_A), equiv.IC10Side(prog, cap.main_end), b)
    return bool(r.divergences), (r.divergences[0].detail if r.divergences else "no divergence found")


def run(tier: str) -> int:
    rep = harness.Report(PROP, tier, "translation_validation")
    rep.assumptions = ASSUMPTIONS
    n_gen = 600 if tier == "thorough" else 40
    known = harness.known_for(PROP)
    items = []
    for name, srcs in base.repo_sources():
        items.append(("src_vs_ic10", dict(name=name, sources=srcs, tier=tier, strict=False, timeout=240 if tier == "thorough" else 60)))
    for sp in base.gen_specs(n_gen, None, tier, salt=1):
        items.append(("src_vs_ic10", sp))
    for pname, psrc in probes.all_probes():
        items.append(("src_vs_ic10", dict(name=f"probe:{pname}", sources=psrc, tier=tier, timeout=60, features=["probe:" + pname.split(":")[0]])))
    # register pressure at the edge of the register file: a program the compiler accepts must load
    # (r0-r15 only) and behave like its source; 17 live values must be rejected
    from . import c04

    for k in (15, 16, 17):
        for inf in (False, True):
            items.append(("src_vs_ic10", dict(name=f"probe:pressure:{k}:{'f' if inf else 'm'}", sources=c04.edge_program(k, inf), tier=tier, timeout=60,
                                              opts={"inline_functions": False}, must_load=True, features=["probe:pressure"])))
    for sp in base.witness_specs(WITNESSES, tier):
        sp["strict"] = True
        items.append(("src_vs_ic10", sp))
    results = harness.pmap(e1.run_task, items)

    ok_twin, twin_msg = twin_check(e1.bounds_for(tier))
    if not ok_twin:
        rep.harness_errors.append("reachability twin not detected: " + twin_msg)

    gen_res, repo_res, wit_res = [], [], []
    for (kind, spec), r in zip(items, results):
        if spec["name"].startswith(("gen:", "probe:")):
            gen_res.append(r)
        elif spec["name"].startswith("witness:"):
            wit_res.append(r)
        else:
            repo_res.append(r)
        if r["status"] == "harness_error":
            rep.harness_errors.append(f"{spec['name']}: {r.get('detail')}")
        bad = r["status"] == "divergence" or (r["status"] == "load_error" and (spec["name"].startswith("witness:") or spec.get("must_load")))
        if not bad:
            continue
        k = None
        if "witness" in spec:
            k = next((x for x in known if x.get("witness") == spec["witness"]), None)
        else:
            k = next((x for x in known if x.get("program") == spec["name"]), None)
        if k is not None:
            rep.known(f"{k['id']} {k['what']} [{spec['name']}]")
            continue
        path = e1.save_replay(PROP, dict(property=PROP, kind="src_vs_ic10", name=spec["name"], sources=spec["sources"],
                                         opts=spec.get("opts", {}), result=r))
        d = (r.get("divergences") or [{}])[0]
        rep.violation(f"{spec['name']}: {d.get('detail', r.get('detail'))}", path)

    multi = [r for r in gen_res + repo_res if r.get("multi_path") and r["status"] == "ok"]
    if not multi:
        rep.harness_errors.append("vacuity guard: no program with >= 2 feasible paths")
    tot = base.solver_totals(results)
    samples = []
    for r in base.sample_programs(gen_res, 2):
        sp = next(s for (k, s) in items if s["name"] == r["name"])
        samples.append(dict(name=r["name"], source=sp["sources"], paths=r["paths"], effects_compared=r["effects_compared"], features=r["features"]))
    if not samples:
        samples.append(dict(name="twin", source=TWIN_A, note=twin_msg))
    rep.coverage = dict(
        programs=sum(1 for r in results if r["status"] in ("ok", "divergence")),
        disagreements_checked=sum(len(r.get("divergences", [])) + r.get("spurious", 0) for r in results),
        samples=samples,
        explanation="each program: real compile_code output loaded by the IC10 loader and executed on the symbolic machine against the dialect interpreter; paths explored by re-execution, trace equality decided by z3 per path",
        functions_encoded=["stationeers_pytrapic.compiler.compile_code (executed; its output is the object of the encoding)",
                           "emitted IC10 program -> vf.ic10.Machine (symbolic)", "source program -> vf.source.Interp (symbolic)"],
        bounds=e1.bounds_for(tier).as_dict(),
        construct_probes=len(probes.all_probes()),
        generated=dict(n=len(gen_res), by_status=base.count_by(gen_res), features=base.feature_histogram(gen_res)),
        repository_sources=dict(n=len(repo_res), by_status=base.count_by(repo_res)),
        witnesses=dict(n=len(wit_res), by_status=base.count_by(wit_res)),
        multi_path_programs=len(multi),
        paths=tot["paths"],
        queries=dict(total=tot["queries"], sat=tot["sat"], unsat=tot["unsat"], unknown=tot["unknown"]),
        solver_s=tot["solver_s"],
        spurious_counterexamples=sum(r.get("spurious", 0) for r in results),
        inconclusive=dict(timeout=sum(1 for r in results if r["status"] == "timeout"),
                          unsupported=sum(1 for r in results if r["status"] == "unsupported"),
                          solver_unknown=sum(r.get("inconclusive", 0) for r in results),
                          paths_cut_by_bounds=sum(r.get("bound_paths", 0) for r in results)),
        reachability_twin=dict(detected=ok_twin, detail=twin_msg),
        exhaustive=False,
    )
    return rep.finish()
