"""C15 - in-source '# pytrapic:' directives set exactly the named options (E3: the real scanner
statements of compile_code executed on strings with symbolic characters)."""
from __future__ import annotations

import dataclasses
import itertools
import time

import z3

from .. import e1, e2core as E, e3, harness, sym
from . import base

PROP = "C15"
SOLVER = {'bounds': 'templates with <= 6 symbolic characters over stated alphabets, concrete lengths; 3 caller option vectors; options as object / dict; project sources'}

OPTION_NAMES = ["original_code_as_comment", "generated_comments", "inline_functions", "remove_labels",
                "append_version", "compact", "tail_call_optimization", "use_push_pop_functions"]

ASSUMPTIONS = [
    "the real compile_code of an instrumented copy of compiler.py is executed with Compiler and set_output_mode stubbed (the stub returns the option object it was given); everything before that call - the directive scanner - is the repository's code, run on a SymStr source",
    "source lines are separated by \\n, \\r\\n or \\r (Python's physical lines); blank = whitespace",
    "specification (written for this project from the property text): a line whose first non-blank character is '#' and that contains 'pytrapic:' sets, for each comma-separated tag after it, the known option named by the tag with '-' read as '_' to True, or to False when prefixed by 'no-'/'no_'; unknown names are ignored; last line wins; any other occurrence has no effect; the call never raises",
    "bounds: templates with <= 5 symbolic characters drawn from the stated alphabets; lengths concrete per case (exhaustive per case when the path budget is not hit)",
    "spellings where the property text is silent (blanks between 'no-' and the name, empty tags, repeated prefixes) are not generated",
]

WS = [0x20, 0x09]
ADV = [0x20, 0x0B, 0x0C, 0x1C, 0x1E, 0x85, 0x2028, 0x0A]  # candidates for "line boundary" confusion
SEP = [ord(","), ord(" "), ord("-"), ord("_")]


def spec(text: str, base_opts: dict) -> dict:
    """Reference semantics on a concrete string."""
    import re

    opts = dict(base_opts)
    for line in re.split(r"\r\n|\n|\r", text):
        s = line.lstrip()
        if not s.startswith("#"):
            continue
        body = s[1:]
        i = body.find("pytrapic:")
        if i < 0:
            continue
        for tag in body[i + len("pytrapic:"):].split(","):
            name = tag.strip().replace("-", "_")
            val = True
            if name.startswith("no_"):
                name, val = name[3:], False
            if name in OPTION_NAMES:
                opts[name] = val
    return opts


def unambiguous(text: str) -> bool:
    """Strings on which the property text fixes the answer (see ASSUMPTIONS)."""
    import re

    for line in re.split(r"\r\n|\n|\r", text):
        s = line.lstrip()
        if not s.startswith("#") or "pytrapic:" not in s:
            continue
        rest = s[1:][s[1:].find("pytrapic:") + 9:]
        for tag in rest.split(","):
            t = tag.strip().replace("-", "_")
            if t.startswith("no_"):
                t2 = t[3:]
                if t2 != t2.strip() or t2.startswith("no_"):
                    return False
    return True


class _Stub:
    def __init__(self, options):
        self.options = options

    def compile(self, src):
        return {"__options__": self.options}


_mod = None


def scanner_module():
    global _mod
    if _mod is None:
        m = E.load_instrumented("compiler", extra_ns=dict(hasattr=e3.vf_hasattr, setattr=e3.vf_setattr, isinstance=_isinstance))
        m.__dict__["Compiler"] = _Stub
        m.__dict__["set_output_mode"] = lambda mode: None
        _mod = m
    return _mod


def _isinstance(obj, cls):
    if isinstance(obj, e3.SymStr):
        return cls is str or (isinstance(cls, tuple) and str in cls)
    return isinstance(obj, cls)


def build(parts, prefix, ctx):
    """parts: list of str | (n, alphabet) -> SymStr (symbolic chars are fresh named constants)"""
    chars = []
    k = 0
    for p in parts:
        if isinstance(p, str):
            chars += [ord(c) for c in p]
        else:
            n, alpha = p
            for _ in range(n):
                v = z3.Int(f"{prefix}_{k}")
                k += 1
                ctx.assume(z3.Or(*[v == a for a in sorted(set(alpha))]))
                chars.append(v)
    return e3.SymStr(chars)


def templates(tier):
    """(name, parts) ; each part str or (n_symbolic, alphabet)"""
    T = []
    names = ["compact", "remove-labels", "no-inline-functions", "no_append_version", "tail_call_optimization", "bogus", "no-bogus"]
    # 1. directive line with symbolic leading blanks and junk before 'pytrapic:'
    for a, b in itertools.islice(itertools.permutations(names, 2), 0, 42 if tier == "thorough" else 8):
        T.append((f"lead:{a},{b}", ["x = 1\n", (2, WS), "#", (1, [0x20, ord("#"), ord("x")]), "pytrapic:", (1, WS), a, ",", (1, WS), b, "\ny = 2\n"]))
    # 2. '-' / '_' spelled symbolically inside names, 'no' prefix separator symbolic
    T.append(("dash:remove?labels", ["# pytrapic: remove", (1, [ord("-"), ord("_"), ord(" ")]), "labels\n"]))
    T.append(("dash:no?compact", ["# pytrapic: no", (1, [ord("-"), ord("_"), ord("x")]), "compact\n"]))
    T.append(("dash:use?push?pop?functions", ["# pytrapic: use", (1, [ord("-"), ord("_")]), "push", (1, [ord("-"), ord("_")]), "pop", (1, [ord("-"), ord("_")]), "functions, no", (1, [ord("-"), ord("_")]), "append", (1, [ord("-"), ord("_")]), "version\n"]))
    # 3. last line wins, symbolic order markers
    T.append(("last_wins", ["# pytrapic: compact\nz = 0\n#", (1, WS), "pytrapic: no", (1, [ord("-"), ord("_")]), "compact", (1, [0x20, ord(","), ord("x")]), "\n"]))
    # 4. 'pytrapic:' after code on the same line / inside a string: symbolic char between code and '#'
    T.append(("after_code", ["x = 1", (2, [0x20, 0x09, ord(";")]), "# pytrapic: compact\n"]))
    T.append(("in_string", ['s = "', (1, ADV), (1, [0x20, 0x09]), '# pytrapic: compact, no-inline-functions"\n']))
    T.append(("in_string2", ['s = "a', (2, ADV), '#pytrapic: remove-labels"\n# pytrapic: compact\n']))
    # 5. separators between tags symbolic
    T.append(("sep", ["# pytrapic: compact", (2, SEP), "remove_labels\n"]))
    # 6. adversarial attribute names
    for nm in ["__class__", "__dict__", "__doc__", "__init__", "__eq__", "__module__", "__dataclass_fields__", "__hash__", "__weakref__"]:
        T.append((f"attr:{nm}", ["#", (1, WS), "pytrapic: ", nm, (1, [0x20, ord(",")]), "compact\n"]))
    # 8. every option, both polarities, both prefix spellings, '-'/'_' symbolic at one position
    for o in OPTION_NAMES:
        for pre in ("", "no-", "no_"):
            spelled = o.replace("_", "-") if pre == "no-" else o
            T.append((f"each:{pre}{o}", ["x = 1\n#", (1, WS), "pytrapic: ", pre + spelled, (1, [0x20, ord(","), 0x0A]), "\n"]))
        T.append((f"each:onoff:{o}", ["# pytrapic: " + o + "\ny = 2\n# pytrapic:", (1, WS), "no", (1, [ord("-"), ord("_")]), o.replace("_", "-"), "\n"]))
    # 9. the same option named on three lines; each line is textually "opt, ?o-opt" where ? is n (the
    #    line switches the option off) or x (unknown tag: the line switches it on): all 8 sequences,
    #    among them repeated identical lines around a conflicting one
    rep_opts = OPTION_NAMES if tier == "thorough" else ["remove_labels", "compact", "append_version"]
    for o in rep_opts:
        line = ["# pytrapic: " + o + ", ", (1, [ord("n"), ord("x")]), "o-" + o.replace("_", "-") + "\n"]
        T.append((f"repeat3:{o}", line + ["a = 1\n"] + line + ["b = 2\n"] + line))
    T.append(("repeat4:two_options", ["# pytrapic: compact, ", (1, [ord("n"), ord("x")]), "o-compact\n", "# pytrapic: ", (1, [ord("n"), ord("x")]), "o-inline-functions\n",
                                      "# pytrapic: compact, ", (1, [ord("n"), ord("x")]), "o-compact\n", "# pytrapic: ", (1, [ord("n"), ord("x")]), "o-inline-functions\n", "# pytrapic: inline-functions, ", (1, [ord("n"), ord("x")]), "o-inline_functions"]))
    # 10. placement: far down the file, last line without a line end, first line, after blank lines
    T.append(("late_line", ["x = 1\n" * 70 + "#", (1, WS), "pytrapic: no-inline-functions, compact\n" + "y = 2\n" * 5]))
    T.append(("last_line_no_newline", ["x = 1\n\n\n#", (1, WS), "pytrapic: remove-labels", (1, [0x20, ord(","), ord("x")])]))
    T.append(("first_line", ["#", (1, WS + [ord("!")]), "pytrapic: no-append-version\nx = 1\n"]))
    # 11. letter case of the marker and of option names, a second marker on the line, '=' and ':' as
    #     separators, trailing commas, BOM before the '#'
    T.append(("case:name", ["# pytrapic: ", (1, [ord("c"), ord("C")]), "ompact, remove", (1, [ord("-"), ord("_")]), (1, [ord("l"), ord("L")]), "abels\n"]))
    T.append(("case:marker", ["# ", (1, [ord("p"), ord("P")]), "ytrapic", (1, [ord(":"), ord("="), ord(" ")]), " compact\n"]))
    T.append(("two_markers", ["# pytrapic: compact", (1, [ord(","), ord(" ")]), " pytrapic: remove-labels", (1, [ord(","), 0x20]), "no-inline-functions\n"]))
    T.append(("sep:equals", ["# pytrapic: compact", (1, [ord("="), ord(":"), ord(",")]), (1, [ord("0"), ord("f"), 0x20]), ", remove-labels", (1, [ord(","), 0x20, ord(";")]), "\n"]))
    T.append(("bom", [(1, [0xFEFF, 0x20, 0xA0]), "# pytrapic: compact\nx = 1\n"]))
    T.append(("unknown_then_known", ["# pytrapic: ", (1, [ord("x"), ord("n")]), "o", (1, [ord("-"), ord("_"), ord("x")]), "bogus, compact, no-", (1, [ord("x"), ord("c")]), "ompact\n"]))
    # 12. several tags on one line, negated and plain ones in every order (polarity symbolic: 'no-x' / 'xo-x')
    T.append(("mixed_polarity:1", ["# pytrapic: ", (1, [ord("n"), ord("x")]), "o-generated-comments, remove-labels, ", (1, [ord("n"), ord("x")]), "o-inline-functions, compact\n"]))
    T.append(("mixed_polarity:2", ["# pytrapic: compact, ", (1, [ord("n"), ord("x")]), "o_append_version, tail-call-optimization, ", (1, [ord("n"), ord("x")]), "o-remove-labels, use_push_pop_functions\n"]))
    # 7. carriage returns
    T.append(("crlf", ["x = 1", (1, [0x0D, 0x0A]), (1, [0x0A, 0x20]), "# pytrapic: compact", (1, [0x0D, 0x20]), "\n"]))
    return T


BASES = [
    {n: False for n in OPTION_NAMES},
    {n: True for n in OPTION_NAMES},
    dict(original_code_as_comment=False, generated_comments=False, inline_functions=True, remove_labels=False, append_version=True, compact=False, tail_call_optimization=False, use_push_pop_functions=False),
]


def task(spec_):
    name, parts, bi = spec_["name"], spec_["parts"], spec_["base"]
    from stationeers_pytrapic.compile_pass import CompileOptions

    mod = scanner_module()
    base_opts = BASES[bi]
    out = dict(name=name, base=bi, status="ok", paths=0, strings=0, problems=[], skipped_ambiguous=0)
    t0 = time.time()

    call = spec_.get("call", "plain")

    def fn():
        c = E.ctx()
        src = build(parts, "c", c)
        o = CompileOptions(**base_opts)
        if call == "dict_options":
            o = dict(base_opts)
        elif call == "modules":
            # a project: the directive scanner reads the main module only
            src = {"": src, "lib": e3.SymStr.of("# pytrapic: " + ", ".join(("no-" if base_opts[n] else "") + n for n in OPTION_NAMES) + "\ndef f():\n    pass\n")}
        r = mod.compile_code(src, o)
        got = {n: getattr(r["__options__"], n) for n in OPTION_NAMES}
        return src, got

    e3.SymStr.HASH_MODE = "length"
    try:
        paths, c = E.explore(fn, max_paths=spec_.get("max_paths", 400))
    finally:
        e3.SymStr.HASH_MODE = "identity"
    out["paths"] = len(paths)
    out["truncated"] = bool(c.work)
    out["queries"] = c.stats.queries
    out["solver_s"] = round(c.stats.solver_s, 2)
    for pc, outcome, asserts in paths:
        s = z3.Solver()
        s.add(*asserts)
        if str(s.check()) != "sat":
            continue
        m = s.model()
        # concretise the path's string; the scanner's outcome is constant on the path, the
        # specification is evaluated on every model class below
        def conc_src():
            chars = []
            k = 0
            for p in parts:
                if isinstance(p, str):
                    chars += [ord(ch) for ch in p]
                else:
                    for _ in range(p[0]):
                        chars.append(m.eval(z3.Int(f"c_{k}"), model_completion=True).as_long())
                        k += 1
            return "".join(chr(x) for x in chars)

        # enumerate all strings of this path (finite: small alphabets), blocking each model
        seen = 0
        while True:
            text = conc_src()
            out["strings"] += 1
            seen += 1
            if not unambiguous(text):
                out["skipped_ambiguous"] += 1
            else:
                want = spec(text, base_opts)
                if outcome[0] == "raise":
                    prob = dict(kind="raises", text=text, detail=f"{type(outcome[1]).__name__}: {outcome[1]}")
                elif outcome[0] == "gap":
                    prob = dict(kind="gap", text=text, detail=outcome[1])
                else:
                    got = outcome[1][1]
                    prob = None if got == want else dict(kind="wrong_options", text=text, got=got, want=want)
                if prob is not None and prob["kind"] != "gap":
                    # replay on the real, uninstrumented compile_code
                    conf = replay(text, base_opts, call)
                    if conf is not None:
                        prob["replayed"] = conf
                        out["problems"].append(prob)
                elif prob is not None:
                    out["status"] = "inconclusive"
                    out["detail"] = prob["detail"]
            # block this model
            k = 0
            lits = []
            for p in parts:
                if not isinstance(p, str):
                    for _ in range(p[0]):
                        v = z3.Int(f"c_{k}")
                        lits.append(v != m.eval(v, model_completion=True))
                        k += 1
            if not lits:
                break
            s.add(z3.Or(*lits))
            if str(s.check()) != "sat" or seen > 300:
                break
            m = s.model()
    out["wall_s"] = round(time.time() - t0, 2)
    return out


def replay(text, base_opts, call="plain"):
    """Real compile_code on the concrete text: returns a description if it misbehaves, else None."""
    from stationeers_pytrapic import compiler as rc
    from stationeers_pytrapic.compile_pass import CompileOptions

    o = CompileOptions(**base_opts)
    src = text
    if call == "dict_options":
        o = dict(base_opts)
    elif call == "modules":
        src = {"": text, "lib": "# pytrapic: " + ", ".join(("no-" if base_opts[n] else "") + n for n in OPTION_NAMES) + "\ndef f():\n    pass\n"}
    real_compiler = rc.Compiler
    rc.Compiler = _Stub
    try:
        try:
            r = rc.compile_code(src, o)
        except Exception as e:
            return f"raises {type(e).__name__}: {e}"
        got = {n: getattr(r["__options__"], n) for n in OPTION_NAMES}
        want = spec(text, base_opts)
        if got != want:
            diff = {n: (got[n], want[n]) for n in OPTION_NAMES if got[n] != want[n]}
            return f"options (got, want): {diff}"
        return None
    finally:
        rc.Compiler = real_compiler


def sequence_obligations():
    """compile_code called several times in one process without an options object (None / nothing):
    every call starts from the default options; directives of an earlier source do not persist."""
    from stationeers_pytrapic import compiler as rc
    from stationeers_pytrapic.compile_pass import CompileOptions

    defaults = {n: getattr(CompileOptions(), n) for n in OPTION_NAMES}
    seqs = [
        [("# pytrapic: compact, remove-labels\n# pytrapic: no-append-version, no-inline-functions\nx = 1\n", None), ("x = 1\n", None), ("# pytrapic: generated-comments\nx = 1\n", None)],
        [("# pytrapic: no-inline-functions\nx = 1\n", "omit"), ("x = 2\n", "omit"), ("x = 3\n", None)],
        [("# pytrapic: compact\nx = 1\n", {}), ("x = 2\n", {}), ("x = 2\n", None)],
    ]
    rows, n = [], 0
    real_compiler = rc.Compiler
    rc.Compiler = _Stub
    try:
        for si, seq in enumerate(seqs):
            for ci, (text, opt) in enumerate(seq):
                r = rc.compile_code(text) if opt == "omit" else rc.compile_code(text, opt if opt is None else dict(opt))
                got = {k: getattr(r["__options__"], k) for k in OPTION_NAMES}
                want = spec(text, defaults)
                n += 1
                if got != want:
                    diff = {k: (got[k], want[k]) for k in OPTION_NAMES if got[k] != want[k]}
                    rows.append(dict(kind="options_persist_between_calls", text=text, detail=f"sequence {si}, call {ci} (options {'omitted' if opt == 'omit' else opt!r}): (got, want) {diff}"))
    finally:
        rc.Compiler = real_compiler
    return n, rows


def run(tier: str) -> int:
    rep = harness.Report(PROP, tier, "exploration")
    rep.assumptions = ASSUMPTIONS
    known = harness.known_for(PROP)
    items = []
    for name, parts in templates(tier):
        for bi in range(len(BASES)):
            if tier == "quick" and bi and not name.startswith(("dash", "last", "in_string:", "each:")):
                continue
            items.append(dict(name=name, parts=parts, base=bi))
            if name.startswith(("each:onoff", "lead:", "late_line", "repeat3")) and (tier == "thorough" or bi == 2 or name.startswith("repeat3")):
                for call in ("dict_options", "modules"):
                    if call == "dict_options" and not name.startswith(("each:onoff:compact", "lead:compact", "late_line")):
                        continue
                    items.append(dict(name=name + "@" + call, parts=parts, base=bi, call=call))
    results = harness.pmap(task, items, placeholder=lambda it, st, d: dict(name=it["name"], base=it["base"], status="inconclusive", detail=f"{st}: {d}", paths=0, strings=0, problems=[], skipped_ambiguous=0))
    strings = 0
    nontrivial = 0
    for spec_, r in zip(items, results):
        strings += r["strings"]
        if r["paths"] > 1:
            nontrivial += 1
        seen = set()
        for pr in r["problems"]:
            k = _known(known, spec_["name"], pr)
            if k is not None:
                rep.known(f"{k['id']} {k['what']}")
                continue
            key = (pr["kind"], pr.get("replayed", "")[:40])
            if key in seen:
                continue
            seen.add(key)
            path = e1.save_replay(PROP, dict(property=PROP, kind="directive", name=spec_["name"], base=BASES[spec_["base"]], call=spec_.get("call", "plain"), problem=pr))
            rep.violation(f"{spec_['name']}: {pr['kind']} on {_short(pr['text'])}: {pr.get('replayed')}", path)
    n_seq, seq_rows = sequence_obligations()
    for row in seq_rows[:3]:
        path = e1.save_replay(PROP, dict(property=PROP, kind="table_row", row=row))
        rep.violation(f"{row['kind']}: {row['detail']}", path)
    rep.coverage = dict(
        call_sequences_checked=n_seq,
        evaluations=strings,
        distinct_nontrivial=nontrivial,
        rule="templates (directive line with symbolic blanks/junk, '-'/'_' spellings, last-wins, three / five directive lines naming the same options with symbolic polarity (all on/off sequences, repeated identical lines), first / last / 71st line, after-code and in-string placements with line-boundary look-alikes, separators, adversarial attribute names, CR/LF; options passed as object or dict; project with a library module whose own directives must be ignored) x caller option vectors; every feasible path of the real scanner is explored, every string of every path class is compared with the specification and mismatches are replayed on the real compile_code; non-trivial = template with >= 2 feasible paths",
        samples=[dict(template=items[0]["name"], parts=[p if isinstance(p, str) else f"<{p[0]} symbolic chars over {[hex(a) for a in p[1]]}>" for p in items[0]["parts"]])],
        templates=len(items),
        paths=sum(r["paths"] for r in results),
        queries=sum(r.get("queries", 0) for r in results),
        solver_s=round(sum(r.get("solver_s", 0) for r in results), 2),
        truncated_templates=sum(1 for r in results if r.get("truncated")),
        skipped_ambiguous_strings=sum(r.get("skipped_ambiguous", 0) for r in results),
        inconclusive=[r["name"] for r in results if r["status"] == "inconclusive"],
        functions_encoded=["compiler.compile_code (directive scanner statements; Compiler and set_output_mode stubbed)"],
        exhaustive=False,
    )
    return rep.finish()


def _short(text):
    r = repr(text)
    return r if len(r) <= 260 else r[:120] + " ... " + r[-120:]


def _known(known, name, pr):
    for k in known:
        m = k.get("match") or {}
        if m.get("kind") and m["kind"] != pr["kind"]:
            continue
        if m.get("template_prefix") and not name.startswith(m["template_prefix"]):
            continue
        if m.get("chars") and not any(chr(c) in pr["text"] for c in m["chars"]):
            continue
        if m.get("text_contains") and m["text_contains"] not in pr["text"]:
            continue
        return k
    return None
