"""C08 - compact output means the same as verbose output."""
from __future__ import annotations

from .. import comp, e1, gen, harness, ic10
from . import base
from .c06 import FIXED

PROP = "C08"
SOLVER = {'bounds': 'calc_hash: names of 4 symbolic characters, every 32-bit CRC value; compute_string: 0..7 symbolic bytes; compute_hash: names of 1..3 (thorough 4) symbolic characters over 7 letters; literals of 1..14 characters concretely; programs enumerated'}
HDR = base.witness.HDR

ASSUMPTIONS = [
    "closed obligation per program and option vector: the verbose and the compact output, loaded by the IC10 loader (independent CRC-32 for HASH, big-endian packing for STR, enum names from the statically extracted tables, $hex), are the same canonical instruction sequence",
    "enum name -> number comes from the repository's tables (the game's table is not available offline); C16 checks their internal consistency",
    "E2 (calc_hash, compute_string, _apply_output_mode, format_enum on symbolic arguments) is described in the coverage under 'e2'",
]

ENUM_PROG = HDR + """
disp = ConsoleLED5(d0)
disp.Mode = DisplayMode.{m1}
disp.Color = Color.{c1}
db.Setting = STR("{s1}")
d1.Setting = HASH("{h1}")
GrowLights["{h1}"].On = LogicType.{lt}
x = Batteries["{h2}"].Charge.{bm}
d2.Setting = x + SortingClass.{sc}
d3.Mode = SlotClass.{sl}
push(HASH("{h2}"))
v = lbn(HASH("StructureBattery"), HASH("{h1}"), LogicType.{lt}, LogicBatchMethod.{bm})
db.On = v
"""


def enum_programs(tier):
    from .. import tables

    en = tables.enums()
    import random

    r = random.Random(harness.seed() + 5)
    out = []
    strings = ["Hi", "Day", "Night", "A b", "x", "ABCDEF", "0", "Main Battery", "Ünï", "tank-1", "a#b", "q", " lead", "trail ", " both ", "Bay 1 ", "t\\tb"]
    n = 250 if tier == "thorough" else 10
    for i in range(n):
        def pick(e):
            return r.choice(list(en[e]))
        s1 = r.choice([s for s in strings if len(s) <= 6 and s.isascii() and "\\" not in s])
        src = ENUM_PROG.format(m1=pick("DisplayMode"), c1=pick("Color"), s1=s1, h1=r.choice(strings), h2=r.choice(strings),
                               lt=pick("LogicType"), bm=pick("LogicBatchMethod"), sc=pick("SortingClass"), sl=pick("SlotClass"))
        out.append((f"enum:{i}", src))
    return out


def long_string_obligations():
    """STR("...") literals of 1..14 characters (the game packs six; the transpiler accepts any length and
    the verbose token keeps the whole string): the number printed in compact mode must be the big-endian
    packing of the whole string, exactly, as an integer."""
    rows = []
    n = 0
    samples = ["Hello World!!x", "ABCDEFGHIJKLMN", "9 lives left..", " pad both end ", "zzzzzzzzzzzzzz"]
    for L in range(1, 15):
        for smp in samples:
            txt = smp[:L]
            src = HDR + f'db.Setting = STR("{txt}")\nmsg = STR("{txt}")\npush(msg)\nd0.Setting = STR("{txt}") + d1.Setting\n'
            a = comp.compile_capture(src, append_version=False, compact=False)
            b = comp.compile_capture(src, append_version=False, compact=True)
            if not (a.ok and b.ok):
                continue
            want = 0
            for ch in txt:
                want = want * 256 + ord(ch)
            for la, lb in zip(a.code.split("\n"), b.code.split("\n")):
                ta, tb = ic10.TOKEN_RE.findall(la), ic10.TOKEN_RE.findall(lb)
                for x, y in zip(ta, tb):
                    if x.startswith("STR("):
                        n += 1
                        if x != f'STR("{txt}")':
                            rows.append(dict(kind="long_string", detail=f"verbose prints {x} for STR(\"{txt}\")"))
                        if y == x:
                            continue
                        try:
                            got = int(y[1:], 16) if y.startswith("$") else int(y)
                        except ValueError:
                            rows.append(dict(kind="long_string", detail=f"compact prints {y!r} for {x}"))
                            continue
                        if got != want:
                            rows.append(dict(kind="long_string", detail=f"compact prints {y} = {got} for {x}, whose big-endian packing is {want}"))
    return n, rows


def task(spec):
    out = dict(name=spec["name"], status="ok", problems=[], tokens=0, symbolic_tokens=0)
    try:
        for vec in spec["vectors"]:
            a = comp.compile_capture(spec["sources"], append_version=False, compact=False, **vec)
            b = comp.compile_capture(spec["sources"], append_version=False, compact=True, **vec)
            if a.ok != b.ok:
                out["problems"].append(dict(kind="compile_mismatch", vec=vec, detail=str(a.error or b.error)[:200]))
                continue
            if not a.ok:
                out["status"] = "compile_error"
                continue
            ln = e1.lenient_names(spec["sources"]) if spec.get("lenient") else frozenset()
            try:
                pa, pb = ic10.load(a.code, ln), ic10.load(b.code, ln)
            except ic10.LoadError as e:
                out["status"] = "unloadable"
                out["detail"] = str(e)
                continue
            ca, cb = ic10.canonical(pa), ic10.canonical(pb)
            out["tokens"] += sum(len(x[1]) + 1 for x in ca)
            out["symbolic_tokens"] += a.code.count("HASH(") + a.code.count("STR(") + sum(1 for t in a.code.split() if "." in t and t[0].isalpha())
            if ca != cb:
                first = next((i for i, (x, y) in enumerate(zip(ca, cb)) if x != y), min(len(ca), len(cb)))
                out["problems"].append(dict(kind="compact_differs", vec=vec, code=a.code, code_compact=b.code,
                                            detail=f"instruction {first}: verbose {ca[first] if first < len(ca) else None} vs compact {cb[first] if first < len(cb) else None}"))
    except Exception as e:
        out["status"] = "harness_error"
        out["detail"] = f"{type(e).__name__}: {e}"
    return out


def run(tier: str) -> int:
    rep = harness.Report(PROP, tier, "exploration")
    rep.assumptions = ASSUMPTIONS
    known = harness.known_for(PROP)
    progs = [(f"fixed:{k}", v, False) for k, v in FIXED.items()]
    n = 500 if tier == "thorough" else 30
    for sp in base.gen_specs(n, None, tier, salt=47):
        progs.append((sp["name"], sp["sources"], False))
    for name, srcs in base.repo_sources():
        progs.append((name, srcs, True))
    # HASH constants inside compile-time-folded expressions (names with negative and positive hashes)
    for hn in ("ItemIronIngot", "ItemSteelIngot", "StructureBattery", "abcd", "O2"):
        progs.append((f"hash_arith:{hn}", HDR + f'k = HASH("{hn}")\npush(HASH("{hn}"))\npush(HASH("{hn}") + 1)\npush(-HASH("{hn}"))\npush(k * 2)\npush(k - d0.Setting)\n'
                      f'if HASH("{hn}") < 0:\n    push(1)\nif k > 0:\n    push(2)\npush(3)\n', False))
    for name, src in enum_programs(tier):
        progs.append((name, src, False))
    from .. import tables

    en = tables.enums()
    slot_names = sorted(tables.all_props("_SlotTypeCommon"))
    lines = [HDR, "f = ArcFurnace(d0)"]
    for i, nm in enumerate(slot_names):
        lines.append(f"d{i % 6}.Setting = f.slot0.{nm}")
        lines.append(f"d{i % 6}.Mode = ArcFurnaces.slot1.{nm}.Sum")
    progs.append(("slots:common", "\n".join(lines) + "\n", False))
    lts = sorted(en["LogicType"])
    for k in range(0, len(lts), 40):
        lines = [HDR, "g = Device(d1)"]
        for i, nm in enumerate(lts[k:k + 40]):
            if nm.isidentifier() and not nm.endswith("_"):
                lines.append(f"d{i % 6}.Setting = g.{nm}")
        progs.append((f"logictypes:{k}", "\n".join(lines) + "\n", False))
    vecs = [{}, {"inline_functions": False}, {"remove_labels": True}, {"inline_functions": False, "use_push_pop_functions": True, "remove_labels": True}]
    items = [dict(name=n_, sources=s, lenient=l, vectors=vecs if tier == "thorough" or i % 4 == 0 else vecs[:2]) for i, (n_, s, l) in enumerate(progs)]
    results = harness.pmap(task, items, placeholder=lambda it, st, d: dict(name=it["name"], status=st, detail=d, problems=[], tokens=0, symbolic_tokens=0))
    nontrivial = 0
    for spec, r in zip(items, results):
        if r["status"] == "harness_error":
            rep.harness_errors.append(f"{spec['name']}: {r.get('detail')}")
        if r.get("symbolic_tokens", 0) > 0 and r["status"] == "ok":
            nontrivial += 1
        for pr in r["problems"]:
            k = next((x for x in known if x.get("program") == spec["name"]), None)
            if k is not None:
                rep.known(f"{k['id']} {k['what']}")
                continue
            path = e1.save_replay(PROP, dict(property=PROP, kind="compact", name=spec["name"], sources=spec["sources"], problem=pr))
            rep.violation(f"{spec['name']} {pr.get('vec')}: {pr['kind']}: {pr['detail'][:200]}", path)
    # the number printed for an enum name in compact mode must be that member's value: where the
    # repository documents the value itself (instruction documentation in the intrinsic wrappers'
    # docstrings) the enum table must agree with it
    from . import c16

    _n_doc, doc_rows = c16.enum_obligations()
    for row in doc_rows:
        if row["kind"] != "enum_value_vs_documentation":
            continue
        path = e1.save_replay(PROP, dict(property=PROP, kind="table_row", row=row))
        rep.violation(f"compact mode prints {row['table']} for {row['enum']}.{row['member']}, the documented value of the token is {row['documented']} ({row['where']})", path)
    n_long, long_rows = long_string_obligations()
    seen_l = set()
    for row in long_rows:
        if row["detail"] in seen_l or len(seen_l) >= 3:
            continue
        seen_l.add(row["detail"])
        path = e1.save_replay(PROP, dict(property=PROP, kind="table_row", row=row))
        rep.violation(f"STR literal: {row['detail']}", path)
    e2cov = {}
    try:
        from .. import e2

        e2cov = e2.run_c08(rep, tier)
    except (ImportError, AttributeError) as ex:
        e2cov = {"status": f"E2 not available: {ex}"}
    rep.coverage = dict(
        evaluations=len(results),
        distinct_nontrivial=nontrivial,
        rule="programs (seeded, fixed, repository sources, enum/HASH/STR template instances with members drawn from every enum type) x option vectors, each compiled verbose and compact; non-trivial = the verbose output contains at least one symbolic token (HASH, STR, enum name)",
        samples=[dict(name=items[-1]["name"], source=items[-1]["sources"])],
        by_status=base.count_by(results),
        tokens_compared=sum(r.get("tokens", 0) for r in results),
        symbolic_tokens=sum(r.get("symbolic_tokens", 0) for r in results),
        e2=e2cov,
        long_string_tokens_compared=n_long,
    )
    return rep.finish()
