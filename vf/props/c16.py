"""C16 - device, enum and instruction tables are internally consistent (closed obligations)."""
from __future__ import annotations

import inspect

import z3

from .. import e1, harness, ic10, tables
from . import base

PROP = "C16"
SOLVER = {'functions_encoded': ['structures_generated (all classes)', 'types_generated (all enums)', 'intrinsics (all wrappers)', 'utils.format_enum'], 'bounds': 'none: every table row (closed obligations)'}

ASSUMPTIONS = [
    "no symbolic input: every obligation is a closed formula over one table row, discharged by z3 (bit-vector CRC-32 of the prefab name == stored hash; Distinct over the values of an enum) or by direct comparison of the real objects",
    "instruction signatures (which instruction has a destination register) come from the table of vf/ic10.py, cross-checked with webapp/src/ic10.json for the opcode set",
    "CRC-32: reflected polynomial 0xEDB88320, signed 32-bit result (independent of zlib)",
]


Q = dict(queries=0, solver_s=0.0)


def _chk(s):
    import time as _t

    t0 = _t.time()
    r = s.check()
    Q["queries"] += 1
    Q["solver_s"] += _t.time() - t0
    return r


def crc32_bv(data: bytes):
    crc = z3.BitVecVal(0xFFFFFFFF, 32)
    poly = z3.BitVecVal(0xEDB88320, 32)
    for b in data:
        crc = crc ^ z3.BitVecVal(b, 32)
        for _ in range(8):
            crc = z3.If(z3.Extract(0, 0, crc) == 1, z3.LShR(crc, 1) ^ poly, z3.LShR(crc, 1))
        crc = z3.simplify(crc)
    return z3.simplify(crc ^ z3.BitVecVal(0xFFFFFFFF, 32))


def structure_obligations():
    from stationeers_pytrapic import structures_generated as sg
    from stationeers_pytrapic import types as ty

    classes, singles = tables.structures()
    rows = []
    s = z3.Solver()
    n = 0
    singular = [c for c in tables.singular_structures()]
    for cname in singular:
        info = classes[cname]
        cls = getattr(sg, cname, None)
        n += 1
        if cls is None:
            rows.append(dict(kind="missing_class", cls=cname))
            continue
        # (1) stored hash == signed CRC-32 of the prefab name (z3 bit-vector obligation)
        want = crc32_bv(cls._prefab_name.encode())
        stored = z3.BitVecVal(cls._hash & 0xFFFFFFFF, 32)
        s.push()
        s.add(want != stored)
        r = _chk(s)
        s.pop()
        if str(r) != "unsat":
            rows.append(dict(kind="hash_mismatch", cls=cname, prefab=cls._prefab_name, stored=cls._hash, crc=ic10.hash_signed(cls._prefab_name)))
        if not (-(2**31) <= cls._hash < 2**31):
            rows.append(dict(kind="hash_not_signed32", cls=cname, stored=cls._hash))
        # (2) plural form with the same hash and prefab name, singleton exists and is that class
        plural = None
        for pname, pcls in singles.items():
            pc = getattr(sg, pcls, None)
            if pc is not None and getattr(pc, "_prefab_name", None) == cls._prefab_name and pcls == "_" + pname:
                plural = (pname, pc)
                break
        if plural is None:
            rows.append(dict(kind="no_plural", cls=cname))
        else:
            pname, pc = plural
            inst = getattr(sg, pname, None)
            if pc._hash != cls._hash or pc._prefab_name != cls._prefab_name:
                rows.append(dict(kind="plural_differs", cls=cname, plural=pname))
            if not isinstance(inst, pc):
                rows.append(dict(kind="singleton_wrong_type", cls=cname, plural=pname))
            # every batch-method accessor (unnamed and named plural) returns the singular class of the
            # same prefab with the batch method of its own name and the plural's device name
            try:
                named = inst["probe name"]
                if type(named) is not pc or named._name != "probe name":
                    rows.append(dict(kind="named_plural", cls=cname, got=f"{type(named).__name__}(name={getattr(named, '_name', None)!r})"))
                for bm in ("Average", "Sum", "Minimum", "Maximum"):
                    if tables.all_props(cname).get(bm, (None,))[0] == "logic":
                        continue  # the device has a logic type of that name (LogicPidController.Minimum): the name denotes the logic type
                    for src_, nm_ in ((inst, None), (named, "probe name")):
                        av = getattr(src_, bm)
                        n += 1
                        if type(av).__name__ != cname or type(av)._hash != cls._hash:
                            rows.append(dict(kind="batch_accessor_class", cls=cname, accessor=bm, got=type(av).__name__))
                        if av._batch_mode is not ty.LogicBatchMethod[bm]:
                            rows.append(dict(kind="batch_accessor_mode", cls=cname, accessor=bm, got=str(av._batch_mode)))
                        if av._name != nm_:
                            rows.append(dict(kind="batch_accessor_name", cls=cname, accessor=bm, got=repr(av._name)))
                        # reads and writes through the handle address the prefab (and the name) as batch instructions
                        for what in ("load", "store"):
                            acc = ty._DeviceLogicType(av, ty.LogicType.Setting)
                            ins = acc._load(ty.IC10Register("r0")) if what == "load" else acc._set(1.0)
                            n += 1
                            opw = {("load", None): "lb", ("load", "probe name"): "lbn", ("store", None): "sb", ("store", "probe name"): "sbn"}[(what, nm_)]
                            vals = [getattr(i_, "value", i_) for i_ in ins.inputs]
                            if ins.op != opw or not vals or vals[0] not in (cls._hash, f'HASH("{cls._prefab_name}")'):
                                rows.append(dict(kind="batch_handle_access", cls=cname, accessor=bm, access=what, got=f"{ins.op} {vals}"))
            except Exception as e:
                rows.append(dict(kind="batch_accessor_raises", cls=cname, detail=f"{type(e).__name__}: {e}"))
        # (2a) the hand-written base properties of the singular and the plural form carry their own logic type
        if plural is not None:
            for bp in ("PrefabHash", "ReferenceId", "NameHash"):
                for holder, hn in ((inst, "plural"), (inst["probe name"], "named plural"), (cls("d0"), "singular")):
                    try:
                        lt = getattr(getattr(holder, bp), "_logic_type", None)
                        n += 1
                        if getattr(lt, "name", lt) != bp:
                            rows.append(dict(kind="base_property_logic_type", cls=cname, prop=bp, form=hn, got=str(getattr(lt, "name", lt))))
                    except Exception as e:
                        rows.append(dict(kind="base_property_raises", cls=cname, prop=bp, form=hn, detail=f"{type(e).__name__}: {e}"))
        # (2b) slot access through the plural form: operand order of lbs / lbns / sbs (prefab hash, [name
        # hash,] slot index, slot type, batch mode | value) and of ls / ss on the single device
        def _norm(v):
            v = getattr(v, "value", v)
            if hasattr(v, "name") and hasattr(v, "value"):
                return v.name
            return v

        if plural is not None:
            slot_props = [(pn, d) for pn, d in tables.all_props(cname).items() if d[0] == "slot"][:2]
            occ = ("Occupied", ty.LogicSlotType.Occupied.value)
            mx = ("Maximum", ty.LogicBatchMethod.Maximum.value)
            for pn, d in slot_props:
                try:
                    reg = ty.IC10Register("r0")
                    for src_, nm_ in ((inst, None), (inst["probe name"], "probe name")):
                        ins = getattr(getattr(src_, pn), "Occupied").Maximum(reg)
                        n += 1
                        vals = [_norm(i_) for i_ in ins.inputs]
                        tail = vals[1:] if nm_ is None else vals[2:]
                        if ins.op != ("lbs" if nm_ is None else "lbns") or len(tail) != 3 or tail[0] != d[1] or tail[1] not in occ or tail[2] not in mx:
                            rows.append(dict(kind="batch_slot_access", cls=cname, prop=pn, named=nm_ is not None, got=f"{ins.op} {[str(v) for v in vals]}"))
                    st_ = getattr(getattr(inst, pn), "Occupied")._set(1.0)
                    vals = [_norm(i_) for i_ in st_.inputs]
                    n += 1
                    if st_.op != "sbs" or len(vals) != 4 or vals[1] != d[1] or vals[2] not in occ:
                        rows.append(dict(kind="batch_slot_access", cls=cname, prop=pn, named=False, got=f"{st_.op} {[str(v) for v in vals]}"))
                    one = getattr(getattr(cls("d0"), pn), "Occupied")
                    for ins in (one._load(reg), one._set(1.0)):
                        vals = [_norm(i_) for i_ in ins.inputs]
                        n += 1
                        if ins.op not in ("ls", "ss") or vals[1] != d[1] or vals[2] not in occ:
                            rows.append(dict(kind="device_slot_access", cls=cname, prop=pn, got=f"{ins.op} {[str(v) for v in vals]}"))
                except Exception as e:
                    rows.append(dict(kind="slot_access_raises", cls=cname, prop=pn, detail=f"{type(e).__name__}: {e}"))
        # (2c) every slot property (numbered slotN and named alias) of the singular form denotes the same slot
        # number on the plural and on the name-filtered plural form; slotN is slot N on all three
        if plural is not None:
            try:
                sing = cls("d0")
                for pn, d in tables.all_props(cname).items():
                    if d[0] not in ("slot", "alias"):
                        continue
                    want = getattr(getattr(sing, pn), "_slot_index", None)
                    if pn.startswith("slot") and pn[4:].isdigit():
                        n += 1
                        if want != int(pn[4:]):
                            rows.append(dict(kind="slot_number_name", cls=cname, prop=pn, index=want))
                    for holder, hn in ((inst, "plural"), (inst["probe name"], "named plural")):
                        n += 1
                        try:
                            got = getattr(getattr(holder, pn), "_slot_index", None)
                        except Exception as e:
                            rows.append(dict(kind="plural_slot_raises", cls=cname, prop=pn, form=hn, detail=f"{type(e).__name__}: {e}"))
                            continue
                        if got != want or want is None:
                            rows.append(dict(kind="plural_slot_number", cls=cname, prop=pn, form=hn, want=want, got=got))
            except Exception as e:
                rows.append(dict(kind="plural_slot_raises", cls=cname, detail=f"{type(e).__name__}: {e}"))
        # (3) named slots resolve to their numbered slot; logic properties carry their own name
        try:
            obj = cls("d0")
        except Exception as e:
            rows.append(dict(kind="ctor_raises", cls=cname, detail=str(e)))
            continue
        for pname_, d in tables.all_props(cname).items():
            try:
                val = getattr(obj, pname_)
            except Exception as e:
                rows.append(dict(kind="property_raises", cls=cname, prop=pname_, detail=str(e)))
                continue
            if d[0] == "slot":
                if getattr(val, "_slot_index", None) != d[1]:
                    rows.append(dict(kind="slot_index", cls=cname, prop=pname_, want=d[1], got=getattr(val, "_slot_index", None)))
                if pname_.startswith("slot") and pname_[4:].isdigit() and int(pname_[4:]) != d[1]:
                    rows.append(dict(kind="slot_number_name", cls=cname, prop=pname_, index=d[1]))
            elif d[0] == "alias":
                tgt = getattr(obj, d[1])
                if getattr(val, "_slot_index", None) != getattr(tgt, "_slot_index", None):
                    rows.append(dict(kind="named_slot", cls=cname, prop=pname_, target=d[1]))
            elif d[0] == "logic":
                lt = getattr(val, "_logic_type", None)
                if getattr(lt, "name", lt) != pname_:
                    rows.append(dict(kind="logic_name", cls=cname, prop=pname_, got=str(lt)))
        # named slot aliases recorded in the class itself
        for pname_, d in classes[cname]["props"].items():
            if d[0] == "alias":
                a, b = getattr(obj, pname_), getattr(obj, d[1])
                if getattr(a, "_slot_index", 0) != getattr(b, "_slot_index", 1):
                    rows.append(dict(kind="named_slot", cls=cname, prop=pname_, target=d[1]))
    # (4) slot classes: every slot-logic property carries the LogicSlotType member of its own name
    from stationeers_pytrapic.types_generated import LogicSlotType, LogicType

    for cname, info in classes.items():
        if not cname.startswith("_SlotType"):
            continue
        cls = getattr(sg, cname, None)
        if cls is None:
            continue
        for pname_, d in info["props"].items():
            if d[0] != "slotlogic":
                continue
            n += 1
            try:
                owner = sg.Furnace("d0") if not cname.endswith("s") or cname in ("_SlotTypeGasCanister",) else None
                obj = cls(owner if owner is not None else getattr(sg, "Furnaces"), 0)
                val = getattr(obj, pname_)
                st = getattr(val, "_slot_type", None)
            except Exception as e:
                rows.append(dict(kind="slot_property_raises", cls=cname, prop=pname_, detail=str(e)))
                continue
            if not isinstance(st, LogicSlotType) or st.name != pname_:
                rows.append(dict(kind="slot_logic_type", cls=cname, prop=pname_, got=f"{type(st).__name__}.{getattr(st, 'name', st)}"))
    return n, rows


def enum_obligations():
    en = tables.enums()
    rows = []
    s = z3.Solver()
    n = 0
    for ename, members in en.items():
        n += 1
        vals = [z3.IntVal(v) for v in members.values()]
        if len(vals) < 2:
            continue
        s.push()
        s.add(z3.Not(z3.Distinct(*vals)))
        r = _chk(s)
        s.pop()
        if str(r) != "unsat":
            seen = {}
            for k, v in members.items():
                if v in seen:
                    rows.append(dict(kind="enum_duplicate", enum=ename, a=seen[v], b=k, value=v))
                seen.setdefault(v, k)
    # runtime enums agree with the static extraction
    from stationeers_pytrapic import types_generated as tg

    # numbers the repository's own instruction documentation (docstrings of the generated intrinsic
    # wrappers: "Contents (0), Required (1), Recipe (2)") gives for enum members must be the table's
    import re as _re

    from stationeers_pytrapic import intrinsics as _intr

    for fname, fn in vars(_intr).items():
        doc = getattr(fn, "__doc__", None)
        if not inspect.isfunction(fn) or not doc:
            continue
        ann = " ".join(str(a) for a in getattr(fn, "__annotations__", {}).values())
        cands = [e_ for e_ in en if _re.search(rf"\b{e_}\b", ann)]
        group = [(m_, int(k_)) for m_, k_ in _re.findall(r"\b([A-Z][A-Za-z]+) \((\d+)\)", doc)]
        if not group:
            continue
        # the documented group belongs to the parameter enum that has all of its names
        owners = [e_ for e_ in cands if all(m_ in en[e_] for m_, _ in group)]
        if not owners:
            continue
        n += 1
        if not any(all(en[e_][m_] == k_ for m_, k_ in group) for e_ in owners):
            e_ = owners[0]
            for m_, k_ in group:
                if en[e_][m_] != k_:
                    rows.append(dict(kind="enum_value_vs_documentation", enum=e_, member=m_, table=en[e_][m_], documented=k_, where=f"intrinsics.{fname}.__doc__"))
    for ename, members in en.items():
        cls = getattr(tg, ename, None)
        if cls is None:
            rows.append(dict(kind="enum_missing", enum=ename))
            continue
        for k, v in members.items():
            if k not in cls.__members__:
                rows.append(dict(kind="enum_alias_lost", enum=ename, member=k, value=v, canonical=cls(v).name))
    return n, rows


def intrinsic_obligations():
    from stationeers_pytrapic import intrinsics
    from stationeers_pytrapic.types import IC10Instruction, IC10Operand

    rows = []
    n = 0
    for name, fn in vars(intrinsics).items():
        if not inspect.isfunction(fn) or fn.__module__ != intrinsics.__name__ or name in ("HASH", "STR"):
            continue
        n += 1
        params = list(inspect.signature(fn).parameters)
        sent = [1000.5 + i for i in range(len(params))]
        try:
            ins = fn(*sent)
        except Exception as e:
            rows.append(dict(kind="intrinsic_raises", name=name, detail=str(e)))
            continue
        if not isinstance(ins, IC10Instruction):
            rows.append(dict(kind="intrinsic_no_instruction", name=name))
            continue
        op = name[:-1] if name.endswith("_") and name[:-1] in ic10.SIG else name
        if ins.op != op:
            rows.append(dict(kind="intrinsic_opcode", name=name, op=ins.op))
        if op not in ic10.SIG:
            rows.append(dict(kind="intrinsic_unknown_opcode", name=name, op=op))
            continue
        sig = ic10.SIG[op]
        has_out = sig.startswith("R")
        vals = [getattr(i, "value", i) for i in ins.inputs]
        if vals != sent:
            rows.append(dict(kind="intrinsic_operands", name=name, got=str(vals)))
        if op == "ins":
            has_out = False  # r? of `ins` is read-modify-write: the wrapper takes it as first operand
        if (ins.output is not None) != has_out:
            rows.append(dict(kind="intrinsic_output", name=name, has_output=ins.output is not None, instruction_has_destination=has_out))
        if len(sent) != len(sig) - (1 if (has_out and op != "ins") else 0) and (ins.output is not None) == has_out:
            rows.append(dict(kind="intrinsic_arity", name=name, params=len(sent), signature=sig))
    return n, rows


def intrinsic_compile_obligations():
    """Every intrinsic wrapper compiled through the real compile_code, once with its value used and
    once as a bare statement: the emitted line must be `<name> [<dest register>] <operands in order>`."""
    from stationeers_pytrapic import intrinsics

    from .. import comp

    rows = []
    n = 0
    HDR = "from stationeers_pytrapic.symbols import *\n"
    for name, fn in vars(intrinsics).items():
        if not inspect.isfunction(fn) or fn.__module__ != intrinsics.__name__ or name in ("HASH", "STR"):
            continue
        op = name[:-1] if name.endswith("_") and name[:-1] in ic10.SIG else name
        sig = ic10.SIG.get(op)
        if sig is None or any(k in sig for k in "TNAC") or op in ("hcf",):
            continue
        wrapper_has_out = fn(*[0] * len(inspect.signature(fn).parameters)).output is not None if True else None
        kinds = sig[1:] if sig.startswith("R") else sig
        params = list(inspect.signature(fn).parameters)
        if len(params) != len(kinds):
            continue  # recorded by intrinsic_obligations (arity / output findings)
        args, want = [], []
        pre = []
        for j, k in enumerate(kinds):
            if k == "D":
                args.append(f"d{j % 6}")
                want.append(f"d{j % 6}")
            elif k == "L":
                args.append("LogicType.Setting")
                want.append("Setting")
            elif k == "S":
                args.append("LogicSlotType.Occupied")
                want.append("Occupied")
            elif k == "B":
                args.append("LogicBatchMethod.Sum")
                want.append("Sum")
            elif k == "M":
                args.append("LogicReagentMode.Contents")
                want.append("Contents")
            else:
                # a value operand loaded from its own stack cell, so that it is not folded
                pre.append(f"a{j} = stack[{20 + j}]")
                args.append(f"a{j}")
                want.append(("cell", 20 + j))
        call = f"{name}({', '.join(args)})"
        HDRP = HDR + "\n".join(pre) + ("\n" if pre else "")
        for form, src in (("value", HDRP + f"x = {call}\ndb.Setting = x\n"), ("statement", HDRP + f"{call}\ndb.Setting = 1\n")):
            if form == "value" and not wrapper_has_out:
                continue
            n += 1
            cap = comp.compile_capture(src, append_version=False)
            if not cap.ok:
                rows.append(dict(kind="intrinsic_compile_error", name=name, form=form, detail=(cap.error or "")[:120]))
                continue
            cands = [l.split() for l in cap.code.split("\n") if l.split() and l.split()[0] == op]
            if op == "get":
                cands = [c_ for c_ in cands if c_[2:3] != ["db"]]
            line = (cands[0] if op == "s" else cands[-1]) if cands else None
            if line is None:
                rows.append(dict(kind="intrinsic_not_emitted", name=name, form=form, code=cap.code))
                continue
            ops = line[1:]
            if sig.startswith("R") and wrapper_has_out:
                if not ops or not ic10.REG_RE.match(ops[0]):
                    rows.append(dict(kind="intrinsic_emitted_without_destination", name=name, form=form, line=" ".join(line)))
                    continue
                ops = ops[1:]
            cell_of = {}
            for l in cap.code.split("\n"):
                t = l.split()
                if len(t) == 4 and t[0] == "get" and t[2] == "db" and t[3].isdigit():
                    cell_of.setdefault(t[1], int(t[3]))
            got = []
            for o_ in ops:
                if ic10.REG_RE.match(o_) and o_ in cell_of:
                    got.append(("cell", cell_of[o_]))
                else:
                    got.append(o_.split(".")[-1] if o_.split(".")[0] in ("LogicType", "LogicSlotType", "LogicBatchMethod", "LogicReagentMode") else o_)
            if got != want:
                rows.append(dict(kind="intrinsic_emitted_operands", name=name, form=form, line=" ".join(line), want=[str(w) for w in want]))
    return n, rows


def run(tier: str) -> int:
    rep = harness.Report(PROP, tier, "other")
    rep.assumptions = ASSUMPTIONS
    known = harness.known_for(PROP)
    ns, rs = structure_obligations()
    ne, re_ = enum_obligations()
    ni, ri = intrinsic_obligations()
    nc, rc = intrinsic_compile_obligations()
    ni += nc
    ri = ri + rc
    per_kind = {}
    for row in rs + re_ + ri:
        per_kind[row["kind"]] = per_kind.get(row["kind"], 0) + 1
        if per_kind[row["kind"]] > 5 and not any(x.get("kind") == row["kind"] for x in known):
            continue  # the same kind of row failure is reported five times at most (rows_failing has the count)
        k = next((x for x in known if x.get("kind") == row["kind"] and row.get("name", row.get("cls", row.get("enum"))) in x.get("names", [])), None)
        if k is not None:
            rep.known(f"{k['id']} {k['what']} [{row.get('name', row.get('cls', row.get('enum')))}]")
            continue
        path = e1.save_replay(PROP, dict(property=PROP, kind="table_row", row=row))
        rep.violation(f"{row}", path)
    rep.coverage = dict(
        explanation="closed obligations per table row: CRC-32 (z3 bit-vectors) of every prefab name vs stored hash, plural/singular agreement, slot aliases, logic property names on the real classes; Distinct (z3) per enum, static-vs-runtime member agreement, numbers given for enum members in the intrinsic wrappers' documentation vs the table; all four batch-method accessors of every plural class (unnamed and named) return the singular class of the same prefab with that batch method; every intrinsic wrapper called with distinct sentinels (opcode = name, operands in order, result iff destination register)",
        evaluations=ns + ne + ni,
        distinct_nontrivial=ns + ne + ni,
        structures=ns, enums=ne, intrinsics=ni,
        rows_failing=len(rs + re_ + ri),
        queries=Q["queries"], solver_s=round(Q["solver_s"], 2),
        samples=[dict(structure="Furnace", prefab="StructureFurnace", crc32_signed=ic10.hash_signed("StructureFurnace"))],
        exhaustive=True,
    )
    return rep.finish()
