"""C05 - every jump lands where the source construct meant; label removal is line-for-line."""
from __future__ import annotations

import itertools

from .. import comp, e1, equiv, gen, harness, ic10
from . import base
from .c06 import FIXED

PROP = "C05"
SOLVER = {'functions_encoded': ['generate_code.CompilerPassGatherCode.remove_labels', 'generate_code.remove_unused_labels / strip_code', 'emitted IC10 with labels kept / removed'], 'bounds': "E3: label names of 1..3 (thorough 4) symbolic characters over {a, b, '.', '1'}; targets: E1 bounds as in C01; programs enumerated"}
HDR = base.witness.HDR

ASSUMPTIONS = [
    "closed obligations per program and option vector: the labelled output loads (every referenced label defined exactly once), every numeric target of the de-labelled output lies in [0, n], and the label-free canonical forms of both outputs are identical (label -> index of the next instruction)",
    "where the canonical forms differ the two outputs are additionally compared on the symbolic IC10 machine (z3, all inputs) to show the behavioural difference",
    "the construct a jump was generated for: programs whose effects depend on which loop / branch a jump lands in (break / continue in nested loops of every mix, early returns) are compared with their source on the symbolic machine with labels kept and removed (same input model as C01)",
    "identifier quantifier: an adversarial pool of function / module names (prefixes of one another, components after '_' splitting, digits, names close to generated labels) instantiated in fixed templates; names that the compiler rejects are skipped",
    "E3: the real remove_labels + strip_code run on a 10-line labelled template whose two label names are strings of 1..3 (thorough 4) symbolic characters over {a, b, '.', '1'}; every feasible path is explored, the result is compared with the token-wise expected text, mismatches are replayed on the real function; name pairs where one is a component sequence of the other are the recorded finding",
]

TEMPLATE = HDR + """
def {A}(x):
    if x > 1:
        db.Setting = x
        return
    db.Mode = x

def {B}(y):
    c = 0
    while c < 2:
        c += 1
        {A}(y + c)
    {A}(y)

while True:
    yield_()
    {B}(d0.Setting)
    {A}(d1.Setting)
    {B}(2)
"""

# pairs without component collisions (must hold) and with (known finding)
SAFE_POOL = ["f", "g", "alpha", "beta", "x1", "x10", "calc", "calcx", "Update", "update", "lb", "lbx", "endx", "main", "r_x", "q_1", "q_10",
             "jx", "sx", "forx", "whilex", "x_y_z", "y_z_x"]
COLLIDING = [("update", "update_display"), ("show", "do_show"), ("x_1", "x_1_0")]
EDGE = [("_f", "g"), ("f_", "g")]
TOKEN = [("Mode", "g"), ("f", "Setting")]  # function named like a logic type that the program also uses


def components(name):
    return name.split("_")


def collides(a, b):
    ca, cb = components(a), components(b)

    def sub(x, y):
        return any(y[i:i + len(x)] == x for i in range(len(y) - len(x) + 1))

    return a != b and (sub(ca, cb) or sub(cb, ca))


def name_programs(tier):
    out = []
    pool = SAFE_POOL
    pairs = [(a, b) for a, b in itertools.permutations(pool, 2) if not collides(a, b)]
    step = 1 if tier == "thorough" else max(1, len(pairs) // 40)
    for a, b in pairs[::step]:
        out.append((f"names:{a},{b}", TEMPLATE.format(A=a, B=b), None))
    for a, b in COLLIDING:
        out.append((f"names:{a},{b}", TEMPLATE.format(A=a, B=b), "component"))
    for a, b in EDGE:
        out.append((f"names:{a},{b}", TEMPLATE.format(A=a, B=b), "edge_underscore"))
    for a, b in TOKEN:
        out.append((f"names:{a},{b}", TEMPLATE.format(A=a, B=b), "token"))
    return out


# the comment options put source text (with function names and label-like words) on instruction and
# label lines: label removal and unused-label removal both scan whole lines
VECS = [{"inline_functions": False}, {"inline_functions": True}, {"inline_functions": False, "original_code_as_comment": True},
        {"inline_functions": False, "use_push_pop_functions": True}, {"inline_functions": False, "compact": True},
        {"inline_functions": True, "original_code_as_comment": True, "generated_comments": True}]


def task(spec):
    """labelled vs de-labelled for one program and one vector"""
    out = dict(name=spec["name"], status="ok", problems=[], labels=0, jumps=0)
    try:
        o = dict(append_version=False)
        o.update(spec["opts"])
        a = comp.compile_capture(spec["sources"], remove_labels=False, **o)
        b = comp.compile_capture(spec["sources"], remove_labels=True, **o)
        if not a.ok or not b.ok:
            out["status"] = "compile_error" if (not a.ok and not b.ok) else "compile_mismatch"
            out["detail"] = str(a.error or b.error)[:160]
            if a.ok != b.ok:
                out["problems"].append(dict(kind="compile_mismatch", detail=out["detail"]))
            return out
        try:
            pa = ic10.load(a.code)
        except ic10.LoadError as e:
            if e.kind == "other":
                out["status"] = "unloadable_other"  # not a label problem: C09's business
                out["detail"] = str(e)
                return out
            out["problems"].append(dict(kind="labelled_unloadable", detail=str(e), code=a.code))
            return out
        try:
            pb = ic10.load(b.code)
        except ic10.LoadError as e:
            if e.kind == "other":
                out["status"] = "unloadable_other"
                out["detail"] = str(e)
                return out
            out["problems"].append(dict(kind="delabelled_unloadable", detail=str(e), code=b.code, code_labelled=a.code))
            return out
        out["labels"] = len(pa.labels)
        if pb.labels:
            out["problems"].append(dict(kind="labels_left", detail=str(list(pb.labels)), code=b.code))
        # numeric targets in range
        n = pb.n
        for ins in pb.instrs:
            sig = ic10.SIG.get(ins.op, "")
            for k, arg in zip(sig, ins.args):
                if k == "T":
                    out["jumps"] += 1
                    if arg[0] == "num" and not (0 <= arg[1] <= n and arg[1] == int(arg[1])):
                        out["problems"].append(dict(kind="target_out_of_range", detail=ins.raw, code=b.code))
        ca, cb = ic10.canonical(pa), ic10.canonical(pb)
        if ca != cb:
            first = next((i for i, (x, y) in enumerate(zip(ca, cb)) if x != y), min(len(ca), len(cb)))
            pr = dict(kind="not_line_for_line", detail=f"instruction {first}: labelled {ca[first] if first < len(ca) else None} vs de-labelled {cb[first] if first < len(cb) else None}",
                      code=b.code, code_labelled=a.code)
            try:
                r = e1.with_alarm(60, equiv.check_equiv, equiv.IC10Side(pa, a.main_end), equiv.IC10Side(pb, b.main_end), e1.bounds_for(spec.get("tier", "quick")))
                pr["behaviour_differs"] = bool(r.divergences)
                if r.divergences:
                    pr["divergence"] = r.divergences[0].detail
                    pr["env"] = r.divergences[0].env
            except Exception as e:
                pr["behaviour_differs"] = f"unknown ({type(e).__name__})"
            out["problems"].append(pr)
    except Exception as e:
        out["status"] = "harness_error"
        out["detail"] = f"{type(e).__name__}: {e}"
    return out


# ---- E3: the real remove_labels on symbolic label names ---------------------------------------------

E3_ALPHA = [ord("a"), ord("b"), ord("."), ord("1")]


def _e3_template(l1, l2):
    """labelled text with two label names (SymStr or str) and the expected de-labelled text"""
    from .. import e3

    S = e3.SymStr.of
    lines = [S("jal ") + l1, S("jal ") + l2, S("j ") + l1, l1 + ":", S("  s db Setting 1"), S("  j ra"), l2 + ":", S("  s db Mode 2"), S("  beq r0 1 ") + l2, S("  j ra")]
    text = S("\n").join(lines)
    exp = ["jal 3", "jal 5", "j 3", "s db Setting 1", "j ra", "s db Mode 2", "beq r0 1 5", "j ra"]
    return text, exp


def e3_task(shape):
    """shape = (len1, len2): label names of these lengths with symbolic characters"""
    import z3

    from .. import e2core as E, e3

    n1, n2 = shape
    out = dict(shape=shape, paths=0, problems=[], status="ok", queries=0)
    mod = E.load_instrumented("generate_code")
    rp = e3.ReProxy()
    mod.__dict__["re"] = rp
    remove_labels = mod.CompilerPassGatherCode.remove_labels
    strip_code = mod.CompilerPassGatherCode.strip_code

    def mk(prefix, n):
        cs = []
        for i in range(n):
            v = z3.Int(f"{prefix}{i}")
            E.ctx().assume(z3.Or(*[v == a for a in E3_ALPHA]))
            cs.append(v)
        # a label is a Python identifier with '_' -> '.': starts with a letter, does not end with '.'
        E.ctx().assume(z3.Or(cs[0] == ord("a"), cs[0] == ord("b")))
        E.ctx().assume(cs[-1] != ord("."))
        return e3.SymStr(cs)

    def fn():
        l1, l2 = mk("p", n1), mk("q", n2)
        if n1 == n2:
            E.ctx().assume(z3.Or(*[a != b for a, b in zip(l1.c, l2.c)]))
        text, exp = _e3_template(l1, l2)
        res = remove_labels(None, text)
        res = strip_code(None, res)
        return l1, l2, res, exp

    paths, c = E.explore(fn, max_paths=3000)
    out["paths"] = len(paths)
    out["queries"] = c.stats.queries
    out["truncated"] = bool(c.work)
    from stationeers_pytrapic.generate_code import CompilerPassGatherCode as RealG

    for pc, outcome, asserts in paths:
        if outcome[0] == "gap":
            out["status"] = "inconclusive"
            out["detail"] = outcome[1]
            continue
        s = z3.Solver()
        s.add(*asserts)
        if str(s.check()) != "sat":
            continue
        m = s.model()

        def conc(x):
            return "".join(chr(ch if isinstance(ch, int) else m.eval(ch, model_completion=True).as_long()) for ch in x.c)

        if outcome[0] == "raise":
            l1s = l2s = None
            out["problems"].append(dict(kind="raises", detail=f"{type(outcome[1]).__name__}: {outcome[1]}"))
            continue
        l1, l2, res, exp = outcome[1]
        got = conc(res) if isinstance(res, e3.SymStr) else str(res)
        want = "\n".join(exp)
        if got == want and (not isinstance(res, e3.SymStr) or res.concrete()):
            continue
        # mismatch on this path (or symbolic residue): replay the model on the real function
        a, b = conc(l1), conc(l2)
        text, exp2 = _e3_template(a, b)
        real = RealG.strip_code(None, RealG.remove_labels(None, text.to_str()))
        if real != "\n".join(exp2):
            out["problems"].append(dict(kind="labels_not_resolved", labels=[a, b], got=real, want="\n".join(exp2)))
    return out


def run(tier: str) -> int:
    rep = harness.Report(PROP, tier, "exploration")
    rep.assumptions = ASSUMPTIONS
    known = harness.known_for(PROP)
    progs = [(f"fixed:{k}", v, None) for k, v in FIXED.items()]
    n = 150 if tier == "thorough" else 24
    for sp in base.gen_specs(n, None, tier, salt=31):
        progs.append((sp["name"], sp["sources"], None))
    for sp in base.gen_specs(n // 2, gen.Cfg(n_funcs=(2, 4), call_heavy=True, max_depth=2), tier, salt=37):
        progs.append((sp["name"], sp["sources"], None))
    for name, srcs in base.repo_sources():
        progs.append((name, srcs, None))
    from . import c13
    from .. import probes

    for k, v in probes.access_probes() + probes.range_probes()[::6] + probes.call_matrix()[::9]:
        progs.append((f"probe:{k}", v, None))
    # source comments that name other functions on jump / branch lines (labels are substituted over the
    # whole line): callee names sorted before and after the function that holds the jump
    progs.append(("fixed:comment_names", HDR + """
def check(v):
    return v * 2

def zcheck(v):
    return v + 1

def run(v):
    if check(v) > 2:
        db.Setting = 1
    else:
        db.Setting = 2
    c = 0
    while check(c) < v:
        c += 1
        if zcheck(c) > 4:
            break
    db.Mode = c + check(1)
    for i in range(zcheck(1)):
        db.On = check(i)

run(d0.Setting)
run(3)
db.Open = zcheck(1) + check(2)
""", None))
    progs.append(("multi:fixed", c13.FIXED_MULTI, None))
    progs.append(("multi:early_return", {"": HDR + "from library import mylib\n\ndef clamp(x):\n    if x > 9:\n        return 9\n    return x\n\ndb.Setting = mylib.clamp(d0.Setting)\ndb.Mode = mylib.clamp(d1.Setting)\ndb.On = clamp(d2.Setting)\ndb.Open = clamp(3)\n",
                                          "mylib": HDR + "\ndef clamp(x):\n    if x > 5:\n        return 5\n    if x < 0:\n        return 0\n    return x\n"}, "component"))
    progs.append(("multi:early_return_unique", {"": HDR + "from library import mylib as ml\n\ndb.Setting = ml.limit(d0.Setting)\ndb.Mode = ml.limit(d1.Setting)\n",
                                                 "mylib": HDR + "\ndef limit(x):\n    if x > 5:\n        return 5\n    d3.Setting = x\n    return x\n"}, None))
    for i in range(20 if tier == "thorough" else 5):
        srcs, _f = c13.gen_multi(harness.seed() * 4099 + i + 1)
        progs.append((f"multi:{i}", srcs, None))
    progs += name_programs(tier)
    items = []
    for name, src, expect in progs:
        for vi, vec in enumerate(VECS if (tier == "thorough" or name.startswith(("names:", "fixed:"))) else VECS[:3]):
            items.append(dict(name=f"{name}@{vi}", sources=src, opts=vec, tier=tier, expect=expect))
    # the version note is added after label removal: a program in which no line has room for it
    from . import c02

    for vi, vec in enumerate(({"append_version": True, "original_code_as_comment": True}, {"append_version": True, "original_code_as_comment": True, "inline_functions": False})):
        items.append(dict(name=f"fixed:all_lines_commented@note{vi}", sources=c02.ALL_LINES_COMMENTED, opts=vec, tier=tier, expect=None))
    results = harness.pmap(task, items, placeholder=lambda it, st, d: dict(name=it["name"], status=st, detail=d, problems=[], labels=0, jumps=0))
    nontrivial = 0
    labels = jumps = 0
    for spec, r in zip(items, results):
        if r["status"] == "harness_error":
            rep.harness_errors.append(f"{spec['name']}: {r.get('detail')}")
        if r["status"] == "ok" and r.get("jumps", 0) > 0:
            nontrivial += 1
        labels += r.get("labels", 0)
        jumps += r.get("jumps", 0)
        for pr in r["problems"]:
            k = None
            if spec["expect"] == "component":
                # the recorded mechanism: remove_labels corrupts a label into <number>.<rest> / <rest>.<number>
                import re as _re

                if pr["kind"] == "not_line_for_line" or (pr["kind"] == "delabelled_unloadable" and _re.search(r"[0-9]+\.[A-Za-z_]|[A-Za-z_]\.[0-9]+", str(pr["detail"]))):
                    k = next((x for x in known if x.get("mechanism") == "component"), None)
            elif spec["expect"]:
                k = next((x for x in known if x.get("mechanism") == spec["expect"]), None)
            if k is None:
                k = next((x for x in known if x.get("program") and spec["name"].startswith(x["program"] + "@") and x.get("kind") == pr["kind"]), None)
            if k is not None:
                rep.known(f"{k['id']} {k['what']}")
                continue
            path = e1.save_replay(PROP, dict(property=PROP, kind="labels", name=spec["name"], sources=spec["sources"], opts=spec["opts"], problem=pr))
            rep.violation(f"{spec['name']} {spec['opts']}: {pr['kind']}: {str(pr['detail'])[:200]}", path)
    # ---- targets: the location a jump resolves to is the one its construct meant.  Programs whose
    # behaviour depends on which loop / branch a jump lands in are compared with their source on the
    # symbolic machine, with labels kept and removed.
    titems = []
    for k, v in (probes.loop_nest_probes() + [x for x in probes.call_probes() if "return" in x[0]] + [x for x in probes.access_probes() if x[0] in ("acc:while_true",)]
                 + [x for x in probes.construct_probes() if x[0].startswith(("else:", "if:", "elif:", "ifexp:"))]):
        for vn, vec in (("labels", {}), ("nolabels", {"remove_labels": True})):
            titems.append(("src_vs_ic10", dict(name=f"target:{k}@{vn}", sources=v, opts=vec, tier=tier, timeout=60)))
    tres = harness.pmap(e1.run_task, titems)
    for (_, spec), r in zip(titems, tres):
        if r["status"] == "harness_error":
            rep.harness_errors.append(f"{spec['name']}: {r.get('detail')}")
        if r["status"] == "divergence":
            path = e1.save_replay(PROP, dict(property=PROP, kind="src_vs_ic10", name=spec["name"], sources=spec["sources"], opts=spec["opts"], result=r))
            rep.violation(f"{spec['name']}: a jump lands somewhere else than its construct meant: {r['divergences'][0]['detail']}", path)
    # ---- E3: identifier dimension, solver-quantified within the length bound
    shapes = [(1, 1), (1, 2), (2, 1), (2, 2), (1, 3), (3, 1), (2, 3), (3, 2)] + ([(3, 3), (1, 4), (4, 1), (2, 4), (4, 2)] if tier == "thorough" else [])
    e3res = harness.pmap(e3_task, shapes, placeholder=lambda it, st, d: dict(shape=it, paths=0, problems=[], status="inconclusive", detail=f"{st}: {d}", queries=0))
    e3paths = 0
    for r in e3res:
        e3paths += r["paths"]
        if r["status"] == "inconclusive":
            rep.notes.append(f"note: E3 shape {r['shape']} inconclusive: {r.get('detail')}")
        seen_pairs = set()
        for pr in r["problems"]:
            if pr["kind"] == "labels_not_resolved":
                a, b = pr["labels"]
                if collides(a.replace(".", "_"), b.replace(".", "_")):
                    k = next((x for x in known if x.get("mechanism") == "component"), None)
                    if k is not None:
                        rep.known(f"{k['id']} {k['what']}")
                        continue
                if (a, b) in seen_pairs:
                    continue
                seen_pairs.add((a, b))
            path = e1.save_replay(PROP, dict(property=PROP, kind="e3_labels", problem=pr))
            rep.violation(f"remove_labels with label names {pr.get('labels')}: {pr['kind']}: got {pr.get('got', pr.get('detail'))!r}", path)
    rep.coverage = dict(
        e3=dict(function="generate_code.CompilerPassGatherCode.remove_labels + strip_code (instrumented copy, re proxied for the \\b<label>\\b shape)",
                template="10-line labelled program with two label names", alphabet=[chr(a) for a in E3_ALPHA], shapes=shapes, paths=e3paths,
                queries=sum(r.get("queries", 0) for r in e3res), truncated=[r["shape"] for r in e3res if r.get("truncated")],
                assumption="label names: first character a letter, last character not '.', the two names different"),
        targets=dict(programs=len(tres), by_status=base.count_by(tres), paths=sum(r.get("paths") or 0 for r in tres), effects_compared=sum(r.get("effects_compared") or 0 for r in tres),
                     rule="break / continue in every mix of nested for-range / while loops, early returns, while True with continue and break, if / elif / else chains nested in each other with statements after the inner chain: source vs emitted code, labels kept and removed"),
        evaluations=len(results),
        distinct_nontrivial=nontrivial,
        rule="programs (seeded generator, call-heavy generator, fixed call graphs, repository sources, name-pool template instances) x option vectors; each compiled with labels kept and removed; non-trivial = both outputs load and contain at least one jump target",
        samples=[dict(name=items[-1]["name"], source=items[-1]["sources"])],
        by_status=base.count_by(results),
        labels_checked=labels,
        jump_targets_checked=jumps,
        name_pool=dict(safe=SAFE_POOL, colliding=COLLIDING, edge=EDGE, token=TOKEN),
    )
    return rep.finish()
