"""C03 - compile-time evaluation gives the value the chip would compute."""
from __future__ import annotations

import random

from .. import comp, e1, e2, equiv, harness, ic10, probes, sym
from . import base

PROP = "C03"
SOLVER = {'functions_encoded': ['utils.get_binop_instruction / get_unop_instruction fold lambdas', 'utils._e', 'types.compute_hash', 'utils.calc_hash', 'emitted IC10 of constant / stack-operand twins (Set B, C)'], 'bounds': 'Set A: every double / every signed 64-bit integer per operand (no enumeration); Set B / C: E1 bounds (steps, effects, paths per program) as in C01'}
HDR = base.witness.HDR

ASSUMPTIONS = [
    "Set A: the real fold lambdas of utils.get_binop_instruction / get_unop_instruction (and _e) are executed on symbolic operands (Float64 / signed 64-bit ints) and compared per path with the IC10 semantics of the opcode that the table names and that the real compiler emits for the operator",
    "operand range: finite doubles; integers |v| < 2^53; positive modulus; for ^ & and or: integral operands |v| < 2^53; shifts: count 0..52, non-negative left operand of >>; results < 2^53",
    "IC10 semantics (trusted): add sub mul div IEEE double; mod = fmod then +b if negative; and/or/xor on the truncated signed 64-bit values; sll/srl on the 64-bit pattern; s<cc> give 0/1; pow and fmod are uninterpreted functions shared by folder and oracle",
    "a path on which the fold raises produces no literal and is vacuous; a counterexample is reported only if it replays on the real, uninstrumented table",
    "math functions: closed check (folder = math.<name>, emitted opcode of the same name, argument order)",
    "Set B (propagation): straight-line programs whose literal leaves are replaced by own-stack reads bound to the same numbers; outputs compared on the IC10 machine (device reads stay symbolic); folded literals may differ from run-time values in the 17th significant digit (allowed by C09): values are compared with relative tolerance 1e-13 after replay",
    "Set C (constness): programs in which a name is bound once by a constant but is not a constant (parameter, re-binding in a branch / loop / other function / augmented assignment) are compared source vs emitted code with symbolic device reads under three option vectors",
]

CONSTS = [0, 1, 2, 3, 5, 7, 10, 0.5, 0.25, 1.5, 100, -1, -2.5, 12, 60, 0.03125, -0.0625, -0.001953125]


class ExprGen:
    def __init__(self, r):
        self.r = r
        self.leaves = []  # literal values in order

    def leaf(self):
        r = self.r
        if r.random() < 0.25:
            return ("read", f"d{r.randrange(6)}.{r.choice(['Setting', 'On', 'Mode'])}")
        v = r.choice(CONSTS)
        self.leaves.append(v)
        return ("lit", len(self.leaves) - 1)

    def expr(self, d=0):
        r = self.r
        if d >= 3 or r.random() < 0.25:
            return self.leaf()
        k = r.random()
        if k < 0.55:
            return ("bin", r.choice(["+", "-", "*", "+", "-", "*", "/"]), self.expr(d + 1), self.expr(d + 1))
        if k < 0.62:
            # modulus / exponent literals: the index is fixed BEFORE the operand is generated (the operand
            # appends its own leaves); moduli stay positive (IC10 mod and Python % differ for negative ones)
            self.leaves.append(r.choice([2, 3, 4, 7, 10]))
            idx = len(self.leaves) - 1
            return ("bin", "%", self.expr(d + 1), ("lit", idx))
        if k < 0.68:
            self.leaves.append(r.choice([2, 3, 0.5]))
            idx = len(self.leaves) - 1
            return ("bin", "**", ("abs", self.expr(d + 1)), ("lit", idx))
        if k < 0.76:
            return ("neg", self.expr(d + 1))
        if k < 0.86:
            return ("cmp", r.choice(["<", "<=", ">", ">=", "==", "!="]), self.expr(d + 1), self.expr(d + 1))
        if k < 0.93:
            return ("math", r.choice(["sin", "cos", "sqrt", "exp", "atan"]), ("abs", self.expr(d + 1)))
        return ("ifexp", ("cmp", "<", self.leaf(), self.leaf()), self.expr(d + 1), self.expr(d + 1))

    def render(self, e, lit):
        t = e[0]
        if t == "read":
            return e[1]
        if t == "lit":
            return lit(e[1])
        if t == "bin":
            return f"({self.render(e[2], lit)} {e[1]} {self.render(e[3], lit)})"
        if t == "neg":
            return f"(-{self.render(e[1], lit)})"
        if t == "abs":
            return f"abs({self.render(e[1], lit)})"
        if t == "cmp":
            return f"({self.render(e[2], lit)} {e[1]} {self.render(e[3], lit)})"
        if t == "math":
            return f"{e[1]}({self.render(e[2], lit)})"
        if t == "ifexp":
            return f"({self.render(e[2], lit)} if {self.render(e[1], lit)} else {self.render(e[3], lit)})"
        raise AssertionError(t)


def propagation_program(seed):
    """-> (const_src, var_src, bindings{addr: value})"""
    r = random.Random(seed)
    g = ExprGen(r)
    shape = r.choice(["direct", "var", "func", "list", "named"])
    exprs = [g.expr() for _ in range(r.randrange(1, 4))]

    def build(lit):
        L = [HDR]
        body = []
        for i, e in enumerate(exprs):
            s = g.render(e, lit)
            if shape == "var":
                body.append(f"t{i} = {s}")
                body.append(f"d{i % 6}.Setting = t{i} + 1")
            elif shape == "named":
                body.append(f"K{i} = {s}")
                body.append(f"db.Setting = K{i} * 2")
                body.append(f"db.Mode = K{i}")
            else:
                body.append(f"db.Setting = {s}")
        if shape == "func":
            L.append("def f(a, b):")
            L.append("    db.Mode = a * 2 + b")
            L.append("    return a - b")
            L += body
            L.append(f"db.On = f({lit(0)}, {lit(min(1, len(g.leaves) - 1))})")
        elif shape == "list":
            L += body
            L.append(f"db.On = [{g.leaves[0]!r}, {g.leaves[min(1, len(g.leaves) - 1)]!r}, 5, 8][{lit(idx_leaf)}]")
        else:
            L += body
        return "\n".join(L) + "\n"

    if not g.leaves:
        g.leaves.append(3)
    g.leaves.append(r.randrange(4))  # constant index of the list shape
    idx_leaf = len(g.leaves) - 1
    const_src = build(lambda i: repr(g.leaves[i]))
    var_src = build(lambda i: f"stack[{200 + i}]")
    binds = {float(200 + i): float(v) for i, v in enumerate(g.leaves)}
    return const_src, var_src, binds, shape


def task_prop(spec):
    out = dict(name=spec["name"], status="ok", shape=spec["shape"], problems=[])
    try:
        a, pa, pra = e1.compile_and_load(spec["const_src"], dict(append_version=False))
        b, pb, prb = e1.compile_and_load(spec["var_src"], dict(append_version=False))
        if pra or prb:
            out["status"] = "compile_error"
            out["detail"] = f"{pra} / {prb}"
            return out
        bnd = e1.bounds_for(spec.get("tier", "quick"))
        res = equiv.check_equiv(equiv.IC10Side(pa, a.main_end), equiv.IC10Side(pb, b.main_end), bnd, mem0=spec["binds"])
        out["paths"] = res.paths
        out["effects_compared"] = res.effects_compared
        out["spurious"] = res.spurious
        out["stats"] = res.stats.as_dict()
        if res.unsupported:
            out["status"] = "unsupported"
            out["detail"] = res.unsupported
        for d in res.divergences[:1]:
            out["problems"].append(dict(detail=d.detail, left=d.left_trace, right=d.right_trace, env=d.env, code_const=a.code, code_var=b.code))
    except sym.Unsupported as e:
        out["status"] = "unsupported"
        out["detail"] = str(e)
    except Exception as e:
        out["status"] = "harness_error"
        out["detail"] = f"{type(e).__name__}: {e}"
    return out


KNOWN_OPS = {}  # and/or/** were fixed in the repository (see known_findings.json 'fixed'); nothing is suppressed


def run(tier: str) -> int:
    rep = harness.Report(PROP, tier, "proof")
    rep.assumptions = ASSUMPTIONS
    known = {k["id"]: k for k in harness.known_for(PROP)}
    # ---- Set A
    jobs = [("bin", op) for op in e2.table_keys("get_binop_instruction")] + [("un", op) for op in e2.table_keys("get_unop_instruction")] + [("e_hash", "_e(HASH)")]
    resA = harness.pmap(e2.c03_one_operator, jobs,
                        placeholder=lambda it, st, d: ({}, [dict(op=it[1], typing="-", kind="inconclusive", detail=f"{st}: {d}")], []))
    tot = dict(obligations=0, unsat=0, sat=0, unknown=0, model_gaps=0, paths=0, solver_s=0.0)
    samples = []
    for (kind, op), (st, findings, smp) in zip(jobs, resA):
        for k in tot:
            tot[k] += st.get(k, 0)
        samples += smp
        for f in findings:
            if f["kind"] == "inconclusive":
                rep.notes.append(f"note: operator {f['op']}: inconclusive ({f.get('detail')})")
                continue
            kid = KNOWN_OPS.get(f["op"])
            if kid and kid in known:
                if f["op"] in ("and", "or") and f["kind"] == "fold_differs" and f.get("matches_recorded_defect"):
                    rep.known(f"{kid} {known[kid]['what']} [operator {f['op']}]")
                    continue
                if f["op"] == "**" and f["kind"] == "fold_not_a_number":
                    rep.known(f"{kid} {known[kid]['what']}")
                    continue
            if f["op"] == "u~" and f["kind"] == "opcode_mismatch" and "KF-C03-invert-opcode" in known:
                rep.known(f"KF-C03-invert-opcode {known['KF-C03-invert-opcode']['what']}")
                continue
            path = e1.save_replay(PROP, dict(property=PROP, kind="fold", finding=f))
            rep.violation(f"operator {f['op']} ({f['typing']}): {f['kind']}: inputs={f.get('inputs')} fold={f.get('fold')} chip={f.get('chip')} {f.get('detail', '')}", path)
    # ---- math functions
    mf = e2.c03_math_functions()
    for m in mf:
        if not m["ok"]:
            path = e1.save_replay(PROP, dict(property=PROP, kind="math", finding=m))
            rep.violation(f"math function {m['name']}: {m['detail']}", path)
    # ---- Set B
    n = 300 if tier == "thorough" else 48
    items = []
    for i in range(n):
        seed = harness.seed() * 7919 + i
        cs, vs, binds, shape = propagation_program(seed)
        items.append(dict(name=f"prop:{seed}", const_src=cs, var_src=vs, binds=binds, shape=shape, tier=tier))
    resB = harness.pmap(task_prop, items)
    for spec, r in zip(items, resB):
        if r["status"] == "harness_error":
            rep.harness_errors.append(f"{spec['name']}: {r.get('detail')}")
        for pr in r["problems"]:
            path = e1.save_replay(PROP, dict(property=PROP, kind="propagation", name=spec["name"], const_src=spec["const_src"], var_src=spec["var_src"], binds=spec["binds"], problem=pr))
            rep.violation(f"{spec['name']} ({spec['shape']}): folded program differs from the same program with operands loaded from the stack: {pr['detail']}", path)
    # ---- Set C: what is treated as a compile-time constant (names bound once by a constant that are
    # not constants: parameters, branch / loop / cross-function re-bindings) - source vs emitted code
    itemsC = []
    for pname, psrc in probes.constness_probes():
        for vn, opts in (("default", {}), ("noinline", {"inline_functions": False}), ("pushpop", {"inline_functions": False, "use_push_pop_functions": True})):
            itemsC.append(("src_vs_ic10", dict(name=f"probe:{pname}@{vn}", sources=psrc, opts=opts, tier=tier, timeout=60)))
    resC = harness.pmap(e1.run_task, itemsC)
    for (_, spec), r in zip(itemsC, resC):
        if r["status"] == "harness_error":
            rep.harness_errors.append(f"{spec['name']}: {r.get('detail')}")
        if r["status"] == "divergence":
            path = e1.save_replay(PROP, dict(property=PROP, kind="src_vs_ic10", name=spec["name"], sources=spec["sources"], opts=spec["opts"], result=r))
            d = (r.get("divergences") or [{}])[0]
            rep.violation(f"{spec['name']}: a name that is not a compile-time constant was folded: {d.get('detail', r.get('detail'))}", path)
    if tot["unknown"]:
        rep.notes.append(f"note: {tot['unknown']} obligations inconclusive (solver unknown)")
    tot["solver_s"] = round(tot["solver_s"], 2)
    rep.coverage = dict(
        obligations=tot["obligations"],
        discharged=tot["unsat"] + tot["sat"],
        checker_cmd="z3 5.1.0 (python wheel in /verif/.venv) on QF_BVFP+UF obligations generated by vf/e2.py from utils.py of the current tree",
        trusted_base=["z3", "vf/e2core.py proxies (Python float/int semantics)", "IC10 instruction semantics of vf/e2.py:oracle", "concrete replay on the real table"],
        set_a=dict(operators=[op for _, op in jobs], typings=["float,float", "int,int", "int,float", "float,int"], **tot),
        samples=samples[:4] + [dict(propagation=items[0]["const_src"], twin=items[0]["var_src"], binds=items[0]["binds"])],
        math_functions=mf,
        set_b=dict(programs=len(resB), by_status=base.count_by(resB), shapes=base.count_by(resB, "shape"),
                   effects_compared=sum(r.get("effects_compared", 0) for r in resB), paths=sum(r.get("paths", 0) for r in resB)),
        set_c=dict(programs=len(resC), by_status=base.count_by(resC), effects_compared=sum(r.get("effects_compared", 0) for r in resC), paths=sum(r.get("paths", 0) for r in resC)),
        exhaustive=False,
    )
    return rep.finish()
