"""C07 - when the top-level script finishes, nothing else runs (E1 machine with region monitor)."""
from __future__ import annotations

from .. import e1, gen, harness
from . import base

PROP = "C07"
SOLVER = {'functions_encoded': ['emitted IC10 -> vf.ic10.Machine with region monitor']}
HDR = base.witness.HDR

# fixed witnesses of the known finding: a terminating main followed by a non-inlined function
WITNESS_FALLTHROUGH = HDR + """
def f(x):
    db.Setting = x

f(d0.Setting)
f(d1.Setting)
d2.Setting = 1
"""
CONST_TESTS = ["0", "1", "2", "-1", "0.5", "6 & 2", "4 - 4", "True", "False", "LEVEL", "FLAGS & 2", "FLAGS & 1",
               # named constants that are falsy, and tests that reach a constant only through propagation
               "OFF", "DEBUG", "ZERO", "OFF + 1", "LEVEL - 2", "OFF * LEVEL"]


def const_test_programs():
    """top-level if/else on a compile-time constant whose untaken branch calls a function twice"""
    out = []
    for i, t in enumerate(CONST_TESTS):
        for neg in ("",):  # `if not <constant>:` with an else branch is a recorded C01 finding (witness if_not_constant)
            out.append((f"const_test:{i}:{'not' if neg else 'pos'}", HDR + f"""
FLAGS = 6
LEVEL = 2
OFF = 0
DEBUG = False
ZERO = 0.0

def slow_step(v):
    db.Setting = v

def fast_step(v):
    db.Mode = v

if {neg}{t}:
    db.On = 1
    fast_step(3)
    fast_step(4)
else:
    slow_step(5)
    slow_step(6)
db.Open = 7
"""))
            # the taken branch makes no call: a function reachable only from the dead branch must not be emitted
            out.append((f"const_test:{i}:nocall", HDR + f"""
FLAGS = 6
LEVEL = 2
OFF = 0
DEBUG = False
ZERO = 0.0

def slow_step(v):
    db.Setting = v

if {neg}{t}:
    db.On = 1
else:
    slow_step(5)
    slow_step(6)
db.Open = 7
"""))
            # the same with the calls in the `if` branch (dead when the constant is falsy)
            out.append((f"const_test:{i}:nocall_rev", HDR + f"""
FLAGS = 6
LEVEL = 2
OFF = 0
DEBUG = False
ZERO = 0.0

def slow_step(v):
    db.Setting = v

if {neg}{t}:
    slow_step(5)
    slow_step(6)
db.Open = 7
"""))
    return out


def dead_code_programs():
    """unreachable statements that call otherwise unused functions: nothing of them may be emitted
    where the terminating main code can fall into it"""
    out = []
    out.append(("dead:after_return", HDR + "def report(v):\n    db.Setting = v\n\ndef update():\n    db.Mode = 1\n    return\n    report(2)\n\nupdate()\ndb.On = 0\n"))
    out.append(("dead:after_return_value", HDR + "def report(v):\n    db.Setting = v\n    return v + 1\n\ndef update(a):\n    db.Mode = a\n    return a * 2\n    x = report(a)\n    return x\n\ndb.On = update(d0.Setting)\n"))
    out.append(("dead:after_break", HDR + "def report(v):\n    db.Setting = v\n\nc = 0\nwhile c < 3:\n    c += 1\n    db.Mode = c\n    break\n    report(c)\ndb.On = 0\n"))
    out.append(("dead:after_continue", HDR + "def report(v):\n    db.Setting = v\n\nc = 0\nwhile c < 2:\n    c += 1\n    db.Mode = c\n    continue\n    report(c)\ndb.On = 0\n"))
    out.append(("dead:never_called", HDR + "def report(v):\n    db.Setting = v\n\ndef unused(a):\n    report(a)\n    report(a + 1)\n\ndb.On = d0.Setting\n"))
    out.append(("dead:if_false", HDR + "def report(v):\n    db.Setting = v\n\nif False:\n    report(1)\n    report(2)\ndb.On = d0.Setting\n"))
    out.append(("dead:if_zero_else", HDR + "def report(v):\n    db.Setting = v\n\nif 1:\n    db.Mode = 1\nelse:\n    report(1)\n    report(2)\ndb.On = d0.Setting\n"))
    # a second call inside a loop whose test folds to false without being a literal
    out.append(("dead:while_const_false", HDR + "def report(x):\n    db.Setting = x\n\nreport(d0.Setting)\nwhile 0 > 1:\n    report(7)\n    yield_()\ndb.On = 1\n"))
    out.append(("dead:while_literal_false", HDR + "def report(x):\n    db.Setting = x\n\nreport(d0.Setting)\nwhile False:\n    report(7)\n    yield_()\ndb.On = 1\n"))
    # inlining requested by a directive line that also carries a negated option
    out.append(("dead:directive_inline", "# pytrapic: no-append-version, inline-functions\n" + HDR + "def report(v):\n    db.Setting = v\n\nreport(d0.Setting + 1)\ndb.On = 1\n"))
    # a library function referenced again from dead top-level code of the main file
    for i, dead in enumerate(["if False:\n    lib.report(99)\n", "if 0:\n    db.Mode = 1\n    lib.report(98)\n", "while False:\n    lib.report(97)\n"]):
        # (a reference that is dead only through a named constant - DEBUG = False; if DEBUG: lib.report(..) -
        # is counted as a call site by the pinned tree: the function is then legitimately not inlined and
        # the recorded fall-through applies; not part of this family)
        out.append((f"dead:library_call:{i}", {"": HDR + "from library import lib\n\nlib.report(1)\n" + dead + "db.Setting = 2\n",
                                                "lib": HDR + "\ndef report(v):\n    db.Setting = v\n"}))
    return out


WITNESS_RETURN = HDR + """
def f(x):
    db.Setting = x

d2.Setting = 1
f(d0.Setting)
f(d1.Setting)
"""

ASSUMPTIONS = [
    "regions come from the instruction list the compiler hands to its register allocator (owner function of every instruction), aligned with the final text",
    "the machine halts when pc runs past the last line (as the game does)",
    "same input / arithmetic model as C01",
]


def cfg():
    return gen.Cfg(n_funcs=(1, 3), main_loop=0.0, n_main_stmts=(2, 5))


def run(tier: str) -> int:
    rep = harness.Report(PROP, tier, "exploration")
    rep.assumptions = ASSUMPTIONS
    known = harness.known_for(PROP)
    n = 200 if tier == "thorough" else 32
    items = []
    for vec in ({}, {"inline_functions": False}, {"inline_functions": False, "remove_labels": True}, {"use_push_pop_functions": True, "inline_functions": False}):
        for sp in base.gen_specs(n // 4, cfg(), tier, salt=7, opts=vec, extra=dict(halt_on_fallthrough=False, calls=False)):
            items.append(("monitor", sp))
    for name, srcs in base.repo_sources():
        items.append(("monitor", dict(name=name, sources=srcs, tier=tier, strict=False, halt_on_fallthrough=False, opts={"inline_functions": False})))
    for name, src in const_test_programs() + dead_code_programs():
        # dead statements are not pruned without inlining (their callee is then emitted and the recorded
        # fall-through applies): the dead-code programs are checked under the default options only
        for vec in (({},) if name.startswith("dead:") else ({}, {"inline_functions": False})):
            items.append(("monitor", dict(name=name, sources=src, tier=tier, halt_on_fallthrough=False, opts=vec)))
            items.append(("src_vs_ic10", dict(name=name, sources=src, tier=tier, opts=vec)))
    # call shapes around definition order (a caller defined before its callee is rejected by the pinned
    # tree; if it is admitted, the callee must still be entered by calls only)
    from .. import probes

    for name, src in [x for x in probes.call_probes() if x[0].startswith(("call:forward_reference", "call:once_inlined", "call:nested"))]:
        items.append(("monitor", dict(name=f"probe:{name}", sources=src, tier=tier, halt_on_fallthrough=False, opts={})))
        items.append(("src_vs_ic10", dict(name=f"probe:{name}", sources=src, tier=tier, opts={})))
    items.append(("monitor", dict(name="witness:fallthrough", sources=WITNESS_FALLTHROUGH, tier=tier, halt_on_fallthrough=False)))
    items.append(("monitor", dict(name="witness:return_to_end", sources=WITNESS_RETURN, tier=tier, halt_on_fallthrough=False)))
    results = harness.pmap(e1.run_task, items)
    kf = next((k for k in known if k["id"] == "KF-C07-fallthrough"), None)
    n_ft = 0
    with_function_region = 0
    for (kind, spec), r in zip(items, results):
        if r["status"] == "harness_error":
            rep.harness_errors.append(f"{spec['name']}: {r.get('detail')}")
        if r.get("main_end") is not None:
            with_function_region += 1
        if kind == "src_vs_ic10" and r["status"] == "divergence":
            path = e1.save_replay(PROP, dict(property=PROP, kind="src_vs_ic10", name=spec["name"], sources=spec["sources"], opts=spec.get("opts", {}), result=r))
            rep.violation(f"{spec['name']}: constant-test program behaves differently from its source: {r['divergences'][0]['detail']}", path)
        for e in r.get("events", []):
            if e["kind"] not in ("fallthrough", "region_cross"):
                continue
            n_ft += 1
            # mechanism of the known finding: sequential flow (or the return of main's last call)
            # from the last main line into the FIRST function region
            st_ = r.get("stats") or {}
            target = int(e["detail"][0]) if e["detail"] else -1
            never_called = (e["kind"] == "fallthrough" and not st_.get("truncated")
                            and target not in (st_.get("called_entries") or []))
            if never_called:
                path = e1.save_replay(PROP, dict(property=PROP, kind="monitor", name=spec["name"], sources=spec["sources"], opts=spec.get("opts", {}), event=e, code=r.get("code")))
                rep.violation(f"{spec['name']}: a function body that no executed call reaches ({st_.get('function_entries', {}).get(str(target))}) is emitted after the main code and entered by fall-through", path)
                continue
            if spec["name"].startswith("dead:") and not spec.get("opts"):
                # by construction every function of these programs has at most one live call site and
                # inlining is on: the pinned tree emits no function body at all, so the recorded
                # fall-through (a legitimately non-inlined function after main) does not apply
                path = e1.save_replay(PROP, dict(property=PROP, kind="monitor", name=spec["name"], sources=spec["sources"], opts=spec.get("opts", {}), event=e, code=r.get("code")))
                rep.violation(f"{spec['name']}: a function whose only other reference is in dead code was emitted after the main code and is entered by fall-through ({st_.get('function_entries', {}).get(str(target))})", path)
                continue
            kp = next((x for x in known if x.get("program") == spec["name"] and x.get("kind") == e["kind"]), None)
            if kp is not None:
                rep.known(f"{kp['id']} {kp['what']}")
                continue
            if kf is not None and e["kind"] == "fallthrough" and int(e["detail"][0]) == r.get("main_end"):
                rep.known(f"{kf['id']} {kf['what']}")
                continue
            path = e1.save_replay(PROP, dict(property=PROP, kind="monitor", name=spec["name"], sources=spec["sources"], opts=spec.get("opts", {}), event=e, code=r.get("code")))
            rep.violation(f"{spec['name']}: control enters a function region without a call at line {e['line']} -> {e['detail']}", path)
    st = base.count_by(results)
    rep.coverage = dict(
        evaluations=len(results),
        distinct_nontrivial=with_function_region,
        rule="programs = seeded generator (terminating main, 1-2 functions) x 4 option vectors + repository sources compiled without inlining + 2 fixed witnesses; non-trivial = the output has a function region after the main code; every path of every program is explored symbolically (inputs solver-quantified) and each region-crossing event is replayed concretely",
        samples=[dict(name=s["name"], source=s["sources"] if isinstance(s["sources"], str) else s["sources"][""], events=r.get("events", [])[:2])
                 for (k, s), r in list(zip(items, results))[-2:]],
        by_status=st,
        fallthrough_events=n_ft,
        bounds=e1.bounds_for(tier).as_dict(),
        paths=sum((r.get("stats") or {}).get("paths", 0) for r in results),
        solver=_sum_solver(results),
    )
    return rep.finish()


def _sum_solver(results):
    t = dict(queries=0, sat=0, unsat=0, unknown=0, solver_s=0.0)
    for r in results:
        s = (r.get("stats") or {}).get("solver") or {}
        for k in t:
            t[k] += s.get(k, 0)
    t["solver_s"] = round(t["solver_s"], 2)
    return t
