"""C06 - calls return to their call site; arguments and results arrive intact."""
from __future__ import annotations

from .. import comp, e1, gen, harness, probes
from . import base
from .c07 import _sum_solver

PROP = "C06"
SOLVER = {'functions_encoded': ['emitted IC10 -> vf.ic10.Machine with shadow call stack', 'source -> vf.source.Interp']}
HDR = base.witness.HDR

ASSUMPTIONS = [
    "shadow call stack on the symbolic IC10 machine: jal pushes (return pc, sp); at every `j ra` the target must be the shadow top and sp must equal sp at the call (push/pop convention: minus the callee's arguments plus one returned value); a tail `j f` inherits the frame",
    "arity / has-return-value of a callee come from the compiler's own function table (captured), function entry lines from the instruction-owner alignment",
    "arguments and results: effect traces of the same programs are compared with the dialect interpreter under every calling-convention vector",
    "same input / arithmetic model as C01",
]

VECTORS = [
    {"inline_functions": False},
    {"inline_functions": True},
    {"inline_functions": False, "use_push_pop_functions": True},
    {"inline_functions": True, "use_push_pop_functions": True},
    {"inline_functions": False, "tail_call_optimization": True},
    {"inline_functions": False, "tail_call_optimization": True, "use_push_pop_functions": True},
    {"inline_functions": True, "tail_call_optimization": True},
    {"inline_functions": False, "remove_labels": True, "use_push_pop_functions": True},
]

RECURSION = {
    "direct": HDR + "\ndef f(x):\n    if x > 0:\n        f(x - 1)\n    db.Setting = x\n\nf(d0.Setting)\nf(3)\n",
    "mutual": HDR + "\ndef a(x):\n    b(x)\n    db.Setting = x\n\ndef b(x):\n    if x > 1:\n        a(x - 1)\n\na(d0.Setting)\na(2)\n",
    "direct_value": HDR + "\ndef f(x):\n    if x > 0:\n        return f(x - 1) + 1\n    return 0\n\ndb.Setting = f(d0.Setting)\ndb.Setting = f(2)\n",
}

# fixed programs: nesting depth 3, early returns inside loops, every arity 0..4, value returned from a
# call result, tail positions
FIXED = {
    "nest3": HDR + """
def leaf(a, b):
    if a > b:
        return a - b
    return b - a

def mid(a, b, c):
    x = leaf(a, b)
    if x > c:
        return leaf(x, c) + 1
    y = leaf(c, x)
    return y + x

def top(a, b, c, d):
    m1 = mid(a, b, c)
    m2 = mid(b, c, d)
    db.Setting = m1
    return m1 + m2

d1.Setting = top(d0.Setting, d0.On, d0.Mode, d0.Open)
d2.Setting = top(1, 2, d0.Lock, 4)
d3.Setting = leaf(d1.On, 2)
""",
    "early_return_in_loop": HDR + """
def find(limit):
    for i in range(5):
        if stack[100 + i] > limit:
            return i
    return -1

def twice(limit):
    a = find(limit)
    b = find(limit + 1)
    return a * 10 + b

db.Setting = twice(d0.Setting)
db.Mode = find(d1.Setting)
db.On = twice(2)
""",
    "noargs_and_tail": HDR + """
def blink():
    db.On = 1
    db.On = 0

def report(v):
    db.Setting = v
    blink()

def run(v, w):
    report(v)
    report(w)
    blink()

while True:
    yield_()
    run(d0.Setting, d1.Setting)
    run(1, 2)
    blink()
""",
    # names that are suffixes / prefixes of each other (label searches by endswith / startswith);
    # no '_' inside (component collisions under remove_labels are a recorded C05 finding) and no
    # call in tail position after other calls (recorded tail-call finding)
    "suffix_names": HDR + """
def report(v):
    db.Setting = v

def preupdate(v):
    if v > 100:
        return
    report(v + 10)
    db.On = v

def update(v):
    preupdate(v)
    report(v + 20)
    report(v + 30)
    db.Mode = v

update(d0.Setting)
update(2)
report(999)
""",
    "suffix_names_early_return": HDR + """
def show(v):
    db.Mode = v

def substep(v):
    show(v * 2)
    if v > 5:
        return v
    return v + 1

def step(v):
    if v < 0:
        return 0
    w = substep(v)
    show(w)
    return w + 1

db.Setting = step(d0.Setting)
db.On = step(3)
show(7)
""",
    "long_single_use": HDR + "\ndef work(a, b):\n    t = a\n    if b > 100:\n        return 0 - 1\n" + "".join(f"    t = t + {i % 7 + 1}\n    u = t - {i % 3}\n    t = u + a\n" for i in range(26)) + "    d2.Setting = t\n" + "    return t + b\n\ndb.Setting = work(d0.Setting, d1.Setting)\ndb.On = 1\n",
    "prefix_names": HDR + """
def run(v):
    db.Setting = v

def runall(v):
    run(v)
    run(v + 1)
    db.Mode = v

def runalltwice(v):
    runall(v)
    runall(v + 5)
    db.On = v

runalltwice(d0.Setting)
runall(1)
run(2)
runalltwice(9)
""",
}


def cfg():
    return gen.Cfg(n_funcs=(2, 4), n_main_stmts=(2, 5), call_heavy=True, max_depth=2)


def run(tier: str) -> int:
    rep = harness.Report(PROP, tier, "exploration")
    rep.assumptions = ASSUMPTIONS
    known = harness.known_for(PROP)
    n = 20 if tier == "thorough" else 5
    items = []
    progs = [(f"fixed:{k}", v, []) for k, v in FIXED.items()]
    cm = probes.call_matrix()
    progs += [(f"probe:{k}", v, []) for k, v in probes.call_probes() + [x for x in cm if ":tail" in x[0] or ":ret:" in x[0]] + (cm if tier == "thorough" else cm[::5])]
    for sp in base.gen_specs(n, cfg(), tier, salt=17):
        progs.append((sp["name"], sp["sources"], sp["features"]))
    for name, src, feats in progs:
        for vi, vec in enumerate(VECTORS):
            items.append(("monitor", dict(name=f"{name}@{vi}", sources=src, features=feats, tier=tier, calls=True, opts=vec)))
            items.append(("src_vs_ic10", dict(name=f"{name}@{vi}", sources=src, features=feats, tier=tier, opts=vec)))
    for name, srcs in base.repo_sources():
        items.append(("monitor", dict(name=name, sources=srcs, tier=tier, strict=False, calls=True, opts={"inline_functions": False})))
    results = harness.pmap(e1.run_task, items)

    calls = returns = 0
    maxdepth = 0
    nontrivial = 0
    for (kind, spec), r in zip(items, results):
        if r["status"] == "harness_error":
            rep.harness_errors.append(f"{spec['name']}: {r.get('detail')}")
        st = r.get("stats") or {}
        if kind == "monitor":
            calls += st.get("calls", 0)
            returns += st.get("returns", 0)
            maxdepth = max(maxdepth, st.get("max_depth", 0))
            if st.get("returns", 0) > 0:
                nontrivial += 1
            for e in r.get("events", []):
                if e["kind"] not in ("wrong_return_address", "sp_mismatch", "return_without_call"):
                    continue
                k = _known(known, spec, e)
                if k is not None:
                    rep.known(f"{k['id']} {k['what']}")
                    continue
                path = e1.save_replay(PROP, dict(property=PROP, kind="monitor", name=spec["name"], sources=spec["sources"], opts=spec.get("opts", {}), event=e, code=r.get("code")))
                rep.violation(f"{spec['name']} {spec.get('opts')}: {e['kind']} at line {e['line']}: {e['detail']}", path)
        else:
            if r["status"] == "divergence":
                k = _known(known, spec, None)
                if k is not None:
                    rep.known(f"{k['id']} {k['what']}")
                    continue
                path = e1.save_replay(PROP, dict(property=PROP, kind="src_vs_ic10", name=spec["name"], sources=spec["sources"], opts=spec.get("opts", {}), result=r))
                rep.violation(f"{spec['name']} {spec.get('opts')}: arguments/results differ from the source: {r['divergences'][0]['detail']}", path)

    # recursion / call cycles must be rejected
    rec = {}
    for name, src in RECURSION.items():
        for vec in ({}, {"inline_functions": False}, {"inline_functions": False, "use_push_pop_functions": True}):
            cap = comp.compile_capture(src, append_version=False, **vec)
            rec[f"{name}@{sorted(vec)}"] = "rejected" if not cap.ok else "compiled"
            if cap.ok:
                k = next((x for x in known if x.get("witness") == f"recursion_{name}"), None)
                if k is not None:
                    rep.known(f"{k['id']} {k['what']}")
                    continue
                path = e1.save_replay(PROP, dict(property=PROP, kind="closed", name=f"recursion:{name}", sources=src, opts=vec, code=cap.code))
                rep.violation(f"recursion:{name} {vec}: a call cycle was compiled instead of rejected", path)
    rep.coverage = dict(
        evaluations=len(results) + len(rec),
        distinct_nontrivial=nontrivial,
        rule="programs = 3 fixed call-graph programs (depth 3, arities 0-4, early returns in loops, tail positions) + seeded call-heavy programs, each under 8 calling-convention vectors, once with the shadow-stack monitor and once against the dialect interpreter; repository sources without inlining; 3 recursive programs x 3 vectors must be rejected. non-trivial = at least one monitored return executed",
        samples=[dict(name="fixed:nest3", source=FIXED["nest3"], vectors=VECTORS)],
        by_status=base.count_by(results),
        calls_monitored=calls,
        returns_checked=returns,
        max_call_depth=maxdepth,
        recursion=rec,
        bounds=e1.bounds_for(tier).as_dict(),
        solver=_sum_solver([r for (k, s), r in zip(items, results) if k == "monitor"]),
    )
    return rep.finish()


def _known(known, spec, e):
    """A known finding matches one fixed program under the listed option values only."""
    base_name = spec["name"].split("@")[0]
    o = spec.get("opts", {})
    for k in known:
        cond = k.get("when") or {}
        if cond.get("program") != base_name:
            continue
        if all(bool(o.get(a)) == b for a, b in cond.get("opts", {}).items()):
            return k
    return None
