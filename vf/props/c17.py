"""C17 - reported size statistics describe the emitted program."""
from __future__ import annotations

import ast
import re

import z3

from .. import comp, e1, e2core as E, gen, harness, ic10, sym
from . import base
from .c06 import FIXED

PROP = "C17"
SOLVER = {'bounds': 'statistics statements: symbolic L (lines), T (characters), R (registers) >= 0 in linear integer arithmetic, no bound; recount on every output of the enumerated families'}

ASSUMPTIONS = [
    "E2: the assignments to num_lines / num_registers / num_bytes at the end of CompilerPassGatherCode.get_code are extracted from the AST of the current tree and executed on an abstract text: L >= 0 non-empty lines without line breaks, T >= L characters in total, joined by single '\\n' (so len(s) = T + max(L-1, 0) and s.splitlines() has L entries), and an abstract register list of length R; z3 (linear integer arithmetic) proves num_lines == L, num_bytes == T + 2*max(L-1, 0), num_registers == R for all L, T, R",
    "closed recount on every real output of the families: lines, bytes with two-byte line ends, distinct r0-r15 tokens outside comments and strings (every register that appears must be counted)",
]


class AbsText:
    """Abstract final text: only its length and line count are known (symbolically)."""

    def __init__(self, L, T):
        self.L, self.T = L, T

    def __sym_len__(self):
        return E.SInt(self.T + z3.If(self.L >= 1, self.L - 1, 0))

    def splitlines(self):
        return AbsList(self.L)


class AbsList:
    def __init__(self, n):
        self.n = n

    def __sym_len__(self):
        return E.SInt(self.n)


def extract_statistics_statements():
    src = (E.PKG_DIR / "generate_code.py").read_text()
    tree = ast.parse(src)
    for node in ast.walk(tree):
        if isinstance(node, ast.FunctionDef) and node.name == "get_code":
            stmts = [st for st in node.body if isinstance(st, ast.Assign) and isinstance(st.targets[0], ast.Name)
                     and st.targets[0].id in ("num_lines", "num_registers", "num_bytes")]
            return stmts
    return []


Q = dict(queries=0, solver_s=0.0)


def _chk(s):
    import time as _t

    t0 = _t.time()
    r = s.check()
    Q["queries"] += 1
    Q["solver_s"] += _t.time() - t0
    return r


def e2_obligation():
    stmts = extract_statistics_statements()
    names = [st.targets[0].id for st in stmts]
    res = dict(statements=[ast.unparse(st) for st in stmts], result=None, counterexample=None)
    if sorted(names) != ["num_bytes", "num_lines", "num_registers"]:
        res["result"] = "extraction_failed"
        return res
    mod = ast.Module(body=[ast.FunctionDef(name="stats", args=ast.arguments(posonlyargs=[], args=[ast.arg("s"), ast.arg("self")], kwonlyargs=[], kw_defaults=[], defaults=[]),
                                           body=stmts + [ast.Return(ast.Tuple([ast.Name(n, ast.Load()) for n in ("num_lines", "num_registers", "num_bytes")], ast.Load()))],
                                           decorator_list=[], type_params=[])], type_ignores=[])
    ast.fix_missing_locations(mod)
    ns = dict(len=E.vf_len, max=_vmax, min=_vmin)
    exec(compile(mod, "<get_code statistics>", "exec"), ns)
    E.set_int_carrier("int")
    L, T, R = z3.Int("L"), z3.Int("T"), z3.Int("R")

    class Self:
        used_registers = AbsList(R)

    try:
        paths, c = E.explore(lambda: ns["stats"](AbsText(L, T), Self()))
    finally:
        E.set_int_carrier("bv")
    res["paths"] = len(paths)
    for pc, out, asserts in paths:
        if out[0] != "value":
            res["result"] = f"{out[0]}: {out[1]}"
            return res
        nl, nr, nb = [v.t if isinstance(v, E.SInt) else z3.IntVal(v) for v in out[1]]
        s = z3.Solver()
        s.add(*asserts)
        s.add(L >= 0, T >= L, R >= 0)
        want_bytes = T + 2 * z3.If(L >= 1, L - 1, 0)
        s.add(z3.Or(nl != L, nr != R, nb != want_bytes))
        r = str(_chk(s))
        if r == "sat":
            m = s.model()
            res["result"] = "sat"
            res["counterexample"] = dict(L=m.eval(L, True).as_long(), T=m.eval(T, True).as_long(), R=m.eval(R, True).as_long(),
                                         num_lines=str(m.eval(nl, True)), num_bytes=str(m.eval(nb, True)), expected_bytes=str(m.eval(want_bytes, True)))
            return res
        if r != "unsat":
            res["result"] = r
            return res
    res["result"] = "unsat"
    return res


def tail_obligation():
    """The whole tail of get_code after label handling (version note + statistics + result dict) on
    texts of 0..3 abstract lines with symbolic lengths: reported numbers vs the structure of the final
    text.  Robust against re-ordering of those statements."""
    from ..e2 import AbsLine

    src = (E.PKG_DIR / "generate_code.py").read_text()
    tree = ast.parse(src)
    tail = None
    for node in ast.walk(tree):
        if isinstance(node, ast.FunctionDef) and node.name == "get_code":
            for i, st in enumerate(node.body):
                if isinstance(st, ast.If) and "remove_labels" in ast.unparse(st.test):
                    tail = node.body[i + 1:]
    res = dict(result=None, cases=0, counterexample=None)
    if not tail:
        res["result"] = "extraction_failed"
        return res
    fn = ast.FunctionDef(name="tail", args=ast.arguments(posonlyargs=[], args=[ast.arg("self"), ast.arg("s"), ast.arg("options"), ast.arg("_version")], kwonlyargs=[], kw_defaults=[], defaults=[]),
                         body=list(tail) + [ast.Return(ast.Attribute(ast.Attribute(ast.Name("self", ast.Load()), "data", ast.Load()), "result", ast.Load()))],
                         decorator_list=[], type_params=[])
    m0 = ast.Module(body=[fn], type_ignores=[])
    ast.fix_missing_locations(m0)
    mod = E._FStringRewriter().visit(ast.parse(ast.unparse(m0)))
    ast.fix_missing_locations(mod)
    ns = dict(len=E.vf_len, max=_vmax, min=_vmin, range=range, __vf_fstring__=E.vf_fstring, __vf_join__=E.vf_join, __vf_in__=E.vf_in)
    exec(compile(mod, "<get_code tail>", "exec"), ns)
    E.set_int_carrier("int")
    try:
        for ver in ("0.2.3", "0.1.dev1+gc5dd0fe04"):
            for av in (True, False):
                for nlines in (0, 1, 2, 3):
                    lens = [z3.Int(f"n{i}") for i in range(nlines)]

                    class _Data:
                        result = None

                    class _Self:
                        def __init__(self):
                            self.data = _Data()
                            self.used_registers = AbsList(z3.Int("R"))

                    class _Opt:
                        append_version = av
                        remove_labels = False

                    class _Ver:
                        __version__ = ver

                    def run():
                        for n in lens:
                            E.ctx().assume(n >= 1)
                        E.ctx().assume(z3.Int("R") >= 0)
                        return ns["tail"](_Self(), E.VJoined("\n", [AbsLine(n) for n in lens]), _Opt(), _Ver())

                    paths, c = E.explore(run)
                    res["cases"] += len(paths)
                    for pc, out, asserts in paths:
                        if out[0] != "value" or not isinstance(out[1], dict):
                            res["result"] = f"{out[0]}: {out[1]}"
                            return res
                        r = out[1]
                        code = r.get("code")
                        if isinstance(code, str):
                            L = len(code.split("\n")) if code else 0
                            true_bytes = z3.IntVal(len(code) + max(L - 1, 0))
                        elif hasattr(code, "lines"):
                            lines = code.lines
                            L = len(lines)
                            true_bytes = z3.IntVal(2 * max(L - 1, 0))
                            for l in lines:
                                true_bytes = true_bytes + (l.n + len(l.suffix) if hasattr(l, "n") else len(l))
                        else:
                            res["result"] = f"unexpected code object {type(code).__name__}"
                            return res

                        def term(v):
                            return v.t if isinstance(v, E.SInt) else z3.IntVal(int(v))

                        s = z3.Solver()
                        s.add(*asserts)
                        s.add(z3.Or(term(r.get("num_lines", -1)) != L, term(r.get("num_bytes", -1)) != true_bytes, term(r.get("num_registers", -1)) != z3.Int("R")))
                        rr = str(_chk(s))
                        if rr == "sat":
                            m = s.model()
                            res["result"] = "sat"
                            res["counterexample"] = dict(version=ver, append_version=av, line_lengths=[m.eval(n, True).as_long() for n in lens],
                                                         reported_bytes=str(m.eval(term(r.get("num_bytes", -1)), True)), true_bytes=str(m.eval(true_bytes, True)),
                                                         reported_lines=str(m.eval(term(r.get("num_lines", -1)), True)), true_lines=L)
                            return res
                        if rr != "unsat":
                            res["result"] = rr
                            return res
        res["result"] = "unsat"
    finally:
        E.set_int_carrier("bv")
    return res


def _vmax(*a):
    if any(isinstance(x, E.SInt) for x in a):
        t = [x.t if isinstance(x, E.SInt) else z3.IntVal(x) for x in a]
        r = t[0]
        for y in t[1:]:
            r = z3.If(r >= y, r, y)
        return E.SInt(r)
    return max(*a)


def _vmin(*a):
    if any(isinstance(x, E.SInt) for x in a):
        t = [x.t if isinstance(x, E.SInt) else z3.IntVal(x) for x in a]
        r = t[0]
        for y in t[1:]:
            r = z3.If(r <= y, r, y)
        return E.SInt(r)
    return min(*a)


def _replay_tail(cex):
    """Compile real programs until one shows reported != recounted statistics."""
    hdr = "from stationeers_pytrapic.symbols import *\n"
    cands = [
        ("", dict(append_version=cex["append_version"])),
        (hdr + 'p = SolarPanel(d0, alias="SOLAR_PANEL_ON_THE_NORTH_ROOF_OF_THE_BASE_STATION")\np.Horizontal = 1\np.Vertical = 2\n', dict(append_version=cex["append_version"])),
        (hdr + "db.Setting = d0.Setting + d1.Setting\nd2.Setting = db.Setting * 2\n", dict(append_version=cex["append_version"], original_code_as_comment=True)),
        (hdr + "db.Setting = 1\n", dict(append_version=cex["append_version"])),
    ]
    for src, o in cands:
        cap = comp.compile_capture(src, **o)
        if not cap.ok:
            continue
        nl, nb, _ = recount(cap.result["code"])
        if cap.result.get("num_lines") != nl or cap.result.get("num_bytes") != nb:
            return f"compile_code({src[-60:]!r}, {o}) reports lines={cap.result.get('num_lines')} bytes={cap.result.get('num_bytes')}, recount lines={nl} bytes={nb}"
    return None


REG_TOK = re.compile(r"^r(1[0-5]|[0-9])$")


def recount(code: str):
    lines = code.split("\n") if code != "" else []
    regs = set()
    for l in lines:
        body = re.sub(r'"[^"]*"', '""', ic10.strip_comment(l))
        for tok in body.split():
            if REG_TOK.match(tok):
                regs.add(tok)
    nbytes = sum(len(l) for l in lines) + 2 * max(len(lines) - 1, 0)
    return len(lines), nbytes, regs


def task(spec):
    out = dict(name=spec["name"], status="ok", problems=[], outputs=0)
    try:
        for vec in spec["vectors"]:
            cap = comp.compile_capture(spec["sources"], **vec)
            if not cap.ok:
                continue
            out["outputs"] += 1
            r = cap.result
            nl, nb, regs = recount(r["code"])
            if r.get("num_lines") != nl:
                out["problems"].append(dict(kind="num_lines", vec=vec, reported=r.get("num_lines"), recount=nl, code=r["code"]))
            if r.get("num_bytes") != nb:
                out["problems"].append(dict(kind="num_bytes", vec=vec, reported=r.get("num_bytes"), recount=nb, code=r["code"]))
            nr = r.get("num_registers")
            if not isinstance(nr, int) or nr < len(regs) or nr > 16:
                out["problems"].append(dict(kind="num_registers", vec=vec, reported=nr, appear=sorted(regs), code=r["code"]))
            elif cap.returned_registers is not None:
                missing = [x for x in regs if int(x[1:]) not in cap.returned_registers]
                if missing:
                    out["problems"].append(dict(kind="register_missing_from_count", vec=vec, missing=missing, code=r["code"]))
                elif nr != len(set(cap.returned_registers)):
                    # "the number of distinct general registers the transpiler allocated": the allocator's own
                    # set (captured from the real assign_registers), neither more nor fewer
                    out["problems"].append(dict(kind="num_registers_not_the_allocated_set", vec=vec, reported=nr, allocated=sorted(set(cap.returned_registers)), code=r["code"]))
    except Exception as e:
        out["status"] = "harness_error"
        out["detail"] = f"{type(e).__name__}: {e}"
    return out


def run(tier: str) -> int:
    rep = harness.Report(PROP, tier, "proof")
    rep.assumptions = ASSUMPTIONS
    known = harness.known_for(PROP)
    ob = e2_obligation()
    if ob["result"] == "sat":
        # replay on the real compiler: the empty program is the only way to get L == 0
        cex = ob["counterexample"]
        replayed = None
        if cex["L"] == 0:
            cap = comp.compile_capture("", append_version=False)
            if cap.ok:
                nl, nb, _ = recount(cap.result["code"])
                if cap.result.get("num_bytes") != nb:
                    replayed = f"compile_code('') reports num_bytes={cap.result.get('num_bytes')} for {cap.result['code']!r}"
        k = next((x for x in known if x["id"] == "KF-C17-empty-program"), None)
        if replayed and k is not None and cex["L"] == 0:
            rep.known(f"{k['id']} {k['what']}")
        elif replayed or cex["L"] != 0:
            path = e1.save_replay(PROP, dict(property=PROP, kind="statistics", obligation=ob, replayed=replayed))
            rep.violation(f"statistics formulas: {cex} {replayed or ''}", path)
    elif ob["result"] != "unsat":
        rep.notes.append(f"note: abstract-text obligation not applicable to the current statements: {ob['result']}")
    tl = tail_obligation()
    if tl["result"] == "sat":
        cex = tl["counterexample"]
        # replay: a real program whose lines have (at least) these lengths
        replayed = _replay_tail(cex)
        path = e1.save_replay(PROP, dict(property=PROP, kind="statistics_tail", obligation=tl, replayed=replayed))
        if replayed:
            rep.violation(f"statistics of get_code: {cex} ; replayed: {replayed}", path)
        else:
            rep.notes.append(f"note: statistics counterexample {cex} did not replay on a real compile")
    elif str(tl["result"]).startswith("raise"):
        # the current statements use something the abstract text does not model (e.g. a regular expression
        # over the emitted text): this obligation is inconclusive, the recount of every real output decides
        rep.notes.append(f"note: get_code tail obligation not applicable to the current statements (inconclusive): {tl['result']}")
    elif tl["result"] != "unsat":
        rep.harness_errors.append(f"E2 get_code tail obligation: {tl['result']}")
    progs = [(f"fixed:{k}", v) for k, v in FIXED.items()] + [("empty", ""), ("comment_only", "# nothing\n")]
    n = 500 if tier == "thorough" else 30
    for sp in base.gen_specs(n, None, tier, salt=53):
        progs.append((sp["name"], sp["sources"]))
    for name, srcs in base.repo_sources():
        progs.append((name, srcs))
    from . import c13

    progs.append(("multi:fixed", c13.FIXED_MULTI))
    progs.append(("multi:counter", {"": c13.HDR + "from library import counter\nwhile True:\n    yield_()\n    counter.update()\n",
                                    "counter": c13.HDR + "\ncount = 0\n\ndef update():\n    global count\n    count = count + 1\n    db.Setting = count\n"}))
    progs.append(("nested_def", c13.HDR + "def outer():\n    def inner(a):\n        t = a * 2\n        db.Setting = t + a\n    inner(d0.Setting)\n    inner(3)\n\nouter()\n"))
    # non-ASCII text reaching the output (hashed names, display strings, source comments): the size is
    # counted in characters of `code`, one per code point, as the pinned tree does
    progs.append(("non_ascii", c13.HDR + "# T\u00fcr \u00f6ffnen \u2013 \u4e2d\u6587\nGrowLights[\"T\u00fcr \u00d6l\"].On = d0.Setting  # \u00e4\u00f6\u00fc\ndb.Setting = HASH(\"\u00e9t\u00e9\")\nx = d1.Setting\nif x > 1:\n    db.Mode = STR(\"\u00b5\")  # \u00b5 sign\n"))
    # characters that str.splitlines() treats as line ends inside string operands
    progs.append(("separator_chars", c13.HDR + "db.Setting = HASH(\"Tank\\x0cA\")\nx = d0.Setting\nif x > 1:\n    db.Mode = HASH(\"a\\x1db\")\nGrowLights[\"L\\u2028x\"].On = x\n"))
    # register-looking words that are not registers: inside hashed names / display strings (verbose output
    # prints them verbatim), in source comments and as part of identifiers
    progs.append(("register_like_words", c13.HDR + "# r11 and r12 hold nothing here\nr13x = d0.Setting  # copies r14\ndb.Setting = HASH(\"r12\")\nGrowLights[\"r15 r9\"].On = r13x\nif r13x > 1:\n    db.Mode = STR(\"r10\")\n\ndef r8x(a):\n    db.Lock = a + HASH(\"r7\")\n\nr8x(r13x)\nr8x(2)\n"))
    # constructs that involve sp / ra / aliases next to general registers
    progs.append(("sp_ra_alias", c13.HDR + "h = WallHeater(d2, alias=True)\nk = GrowLight(d1, alias=\"LAMP\")\n\ndef f(a):\n    push(a)\n    t = pop() + sp\n    h.On = t\n    return t\n\nk.On = f(d0.Setting)\nk.Lock = f(2)\npush(ra)\n"))
    from .. import probes as _probes

    for k_, v_ in _probes.lifetime_probes()[:6] + _probes.call_probes()[:6] + _probes.loop_nest_probes()[:4]:
        progs.append((f"probe:{k_}", v_))
    for i in range(12 if tier == "thorough" else 4):
        srcs, _f = c13.gen_multi(harness.seed() * 5003 + i + 1)
        progs.append((f"multi:{i}", srcs))
    vecs = comp.all_option_vectors()
    items = []
    for i, (name, src) in enumerate(progs):
        vs = [dict(vecs[(i * 3 + j * 7) % 32], append_version=bool(j & 1), original_code_as_comment=bool(j & 2), generated_comments=bool(j & 4)) for j in range(32 if tier == "thorough" else 8)]
        items.append(dict(name=name, sources=src, vectors=vs))
    results = harness.pmap(task, items, placeholder=lambda it, st, d: dict(name=it["name"], status=st, detail=d, problems=[], outputs=0))
    outputs = 0
    for spec, r in zip(items, results):
        outputs += r["outputs"]
        if r["status"] == "harness_error":
            rep.harness_errors.append(f"{spec['name']}: {r.get('detail')}")
        for pr in r["problems"]:
            k = next((x for x in known if x.get("program") == spec["name"] and x.get("kind") == pr["kind"]), None)
            if k is not None:
                rep.known(f"{k['id']} {k['what']}")
                continue
            path = e1.save_replay(PROP, dict(property=PROP, kind="recount", name=spec["name"], sources=spec["sources"], problem=pr))
            rep.violation(f"{spec['name']} {pr.get('vec')}: {pr['kind']}: reported {pr.get('reported')} recount {pr.get('recount', pr.get('appear', pr.get('missing')))}", path)
    rep.coverage = dict(
        obligations=1 + outputs,
        discharged=(1 if ob["result"] in ("unsat", "sat") else 0) + outputs,
        checker_cmd="z3 (QF_LIA) on the obligation generated by vf/props/c17.py from generate_code.py of the current tree; recount by vf/props/c17.py:recount",
        trusted_base=["z3", "abstract text model (L lines, T characters)", "recount function"],
        e2=ob,
        e2_tail=tl,
        samples=[dict(statements=ob["statements"], result=ob["result"], counterexample=ob["counterexample"])],
        outputs_recounted=outputs,
        programs=len(items),
        functions_encoded=["generate_code.CompilerPassGatherCode.get_code (statistics statements)"],
        queries=Q["queries"], solver_s=round(Q["solver_s"], 3),
        exhaustive=False,
    )
    return rep.finish()
