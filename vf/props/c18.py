"""C18 - share links round-trip (E2/E3 on encode_data / decode_data with library contracts)."""
from __future__ import annotations

import base64
import time
import json
import zlib

import z3

from .. import e1, e2core as E, e3, harness, sym
from . import base

PROP = "C18"
SOLVER = {'bounds': 'compressed length m per case (see payload_lengths), all 64^k base64 texts per case; JSON document size symbolic (any integer >= 5); three symbolic JSON characters for encodability'}

B64 = "ABCDEFGHIJKLMNOPQRSTUVWXYZabcdefghijklmnopqrstuvwxyz0123456789+/"
URLSAFE = set(map(ord, "ABCDEFGHIJKLMNOPQRSTUVWXYZabcdefghijklmnopqrstuvwxyz0123456789-_"))

ASSUMPTIONS = [
    "library contracts (nondeterministic stubs): json.loads(json.dumps(d)) == d for JSON-faithful d (string keys); zlib.decompress(zlib.compress(b)) == b; base64.b64decode(base64.b64encode(b)) == b; b64encode(b) has length 4*ceil(len(b)/3), its last (3 - len(b) % 3) % 3 characters are '=' and all others are arbitrary members of the RFC 4648 alphabet",
    "the real statements of types.encode_data / types.decode_data are executed (instrumented copy) with base64 / zlib / json replaced by these stubs; the base64 text is a SymStr whose alphabet characters are symbolic",
    "bound: compressed payload length m = 1..M (quick 96 and 1000, thorough 400 and 1000/2049/4096/8191): for every m all 64^k character choices are covered symbolically on each path (single-character replace is an if-then-else term, it does not fork); the padding arithmetic is additionally proved for all m >= 0 as a linear-integer obligation; the size of the JSON document is a symbolic integer (any size limit on the inflated text is a path condition, its model is replayed with a document of that size)",
    "domain of d: JSON-faithful dictionaries; integer keys are turned into strings by json itself (library behaviour)",
]


class SymBytes:
    """Opaque byte string: the UTF-8 bytes of ``text`` (a _JsonText), ``nbytes`` long (z3 Int, any
    value >= the number of characters).  ``cut`` is None for the whole string or the number of leading
    bytes that are present (a truncated copy)."""

    def __init__(self, text, nbytes, cut=None):
        self.text = text
        self.nbytes = nbytes
        self.cut = cut

    def decode(self, encoding="utf-8", errors="strict"):
        enc = encoding.lower().replace("-", "").replace("_", "")
        if enc not in ("utf8",):
            raise E.ModelGap(f"decode({encoding})")
        return _JsonBack(self)

    def __len__(self):
        raise E.ModelGap("len() of the serialised document")

    def __add__(self, o):
        if isinstance(o, (bytes, SymBytes)) and not isinstance(o, SymBytes) and len(o) == 0:
            return self
        raise E.ModelGap("concatenation of byte strings")

    def __radd__(self, o):
        if isinstance(o, bytes) and len(o) == 0:
            return self
        raise E.ModelGap("concatenation of byte strings")


class _JsonBack:
    """text obtained by decoding SymBytes: what json.loads receives"""

    def __init__(self, b):
        self.b = b


class SymCompressed:
    """opaque result of compressing ``origin`` (SymBytes); m = its concrete length in this case"""

    def __init__(self, origin, m):
        self.origin = origin
        self.m = m

    def __len__(self):
        return self.m


class _B64Stub:
    """b64encode returns a SymStr per contract and remembers it; b64decode must get it back."""

    def __init__(self, m, ctx):
        self.m = m
        self.ctx = ctx
        self.encoded = None
        self.decode_arg = None
        self.data = None

    def b64encode(self, data, *a, **kw):
        if a or kw:
            raise E.ModelGap("b64encode with altchars")
        if not isinstance(data, (SymCompressed, bytes)):
            raise TypeError("a bytes-like object is required")
        self.data = data
        n = 4 * ((self.m + 2) // 3)
        p = (3 - self.m % 3) % 3
        chars = []
        for i in range(n - p):
            v = z3.Int(f"b{i}")
            self.ctx.assume(z3.Or(*[v == ord(ch) for ch in B64]))
            e3.declare_domain(v, [ord(ch) for ch in B64])
            chars.append(v)
        chars += [ord("=")] * p
        self.encoded = e3.SymStr(chars)
        return self.encoded

    def b64decode(self, s, *a, **kw):
        if a or kw:
            raise E.ModelGap("b64decode with altchars / validate")
        self.decode_arg = s
        return self.data

    def __getattr__(self, name):
        raise E.ModelGap(f"base64.{name} is outside the modelled contract")


class _Decompressor:
    def __init__(self, z):
        self.z = z
        self.unconsumed_tail = b""
        self.unused_data = b""
        self.eof = False

    def decompress(self, data, max_length=0):
        whole = self.z.decompress(data)
        if not isinstance(max_length, int):
            raise E.ModelGap("symbolic max_length")
        if max_length <= 0:
            self.eof = True
            return whole
        # contract: at most max_length bytes are returned, the rest stays in unconsumed_tail
        if E.ctx().decide(whole.nbytes > max_length):
            self.unconsumed_tail = _Opaque()
            return SymBytes(whole.text, whole.nbytes, cut=max_length)
        self.eof = True
        return whole

    def flush(self, *a):
        if isinstance(self.unconsumed_tail, _Opaque):
            raise E.ModelGap("flush() after a truncated decompress")
        return b""


class _Opaque:
    pass


class _Zlib:
    MAX_WBITS = 15
    Z_BEST_COMPRESSION = 9
    Z_DEFAULT_COMPRESSION = -1
    error = zlib.error

    def __init__(self, m):
        self.m = m

    def compress(self, b, *a, **kw):
        if not isinstance(b, SymBytes):
            raise TypeError("a bytes-like object is required, not 'str'")
        if b.cut is not None:
            raise E.ModelGap("compress of a truncated document")
        return SymCompressed(b, self.m)

    def decompress(self, b, *a, **kw):
        if kw.get("wbits", a[0] if a else 15) not in (15, 47):
            raise zlib.error("Error -3 while decompressing data: incorrect header check")
        if not isinstance(b, SymCompressed):
            raise E.ModelGap("decompress of something that is not the compressed document")
        return b.origin

    def decompressobj(self, *a, **kw):
        if kw.get("wbits", a[0] if a else 15) not in (15, 47):
            raise E.ModelGap("decompressobj with non-default wbits")
        return _Decompressor(self)

    def __getattr__(self, name):
        raise E.ModelGap(f"zlib.{name} is outside the modelled contract")


ASCII_JSON = [ord(c) for c in '{}":, \\u19afnt[]-.e']
NON_ASCII = [0xE9, 0x4E2D, 0x1F600, 0xD83D, 0xDC00, 0x7F, 0x85]  # incl. lone surrogates: legal in a Python str


class _JsonText(e3.SymStr):
    """json.dumps output: '{' + 3 symbolic characters + ... + '}' ; the characters decide encodability,
    the UTF-8 size of the whole text is the symbolic integer ``nbytes`` (any value >= 5)"""

    nbytes = None

    def encode(self, encoding="utf-8", errors="strict"):
        enc = encoding.lower().replace("-", "").replace("_", "")
        for ch in self.c:
            if enc in ("utf8", "utf16", "utf32"):
                if errors == "strict" and e3.cin(ch, set(range(0xD800, 0xE000)) & set(NON_ASCII)):
                    raise UnicodeEncodeError(enc, "?", 0, 1, "surrogates not allowed")
            elif enc in ("ascii", "latin1"):
                lim = 0x80 if enc == "ascii" else 0x100
                if errors == "strict" and e3.cin(ch, {a for a in NON_ASCII if a >= lim}):
                    raise UnicodeEncodeError(enc, "?", 0, 1, "ordinal not in range")
            else:
                raise E.ModelGap(f"encoding {encoding}")
        if enc != "utf8":
            raise E.ModelGap(f"encoding {encoding}")
        return SymBytes(self, self.nbytes)


DOC = {"k": 1}


class _Json:
    """json.dumps(d) for an arbitrary JSON-faithful d whose strings hold arbitrary code points:
    with ensure_ascii=True (the default) the text is ASCII, otherwise any code point may appear.
    json.loads returns d exactly when it receives the complete text of dumps(d)."""

    JSONDecodeError = json.JSONDecodeError

    def __init__(self, ctx):
        self.ctx = ctx
        self.text = None

    def dumps(self, d, ensure_ascii=True, **kw):
        alpha = ASCII_JSON if ensure_ascii else ASCII_JSON + NON_ASCII
        cs = []
        for i in range(3):
            v = z3.Int(f"j{i}")
            self.ctx.assume(z3.Or(*[v == a for a in sorted(set(alpha))]))
            e3.declare_domain(v, alpha)
            cs.append(v)
        t = _JsonText([ord("{")] + cs + [ord("}")])
        t.nbytes = z3.Int("nbytes")
        self.ctx.assume(t.nbytes >= 5)
        self.text = t
        return t

    def loads(self, s, **kw):
        if isinstance(s, SymBytes):
            s = _JsonBack(s)
        if not isinstance(s, _JsonBack) or s.b.text is not self.text:
            raise E.ModelGap("json.loads of something that is not the serialised document")
        if s.b.cut is not None:
            raise json.JSONDecodeError("Unterminated string (document truncated)", "", 0)
        return dict(DOC)

    def __getattr__(self, name):
        raise E.ModelGap(f"json.{name} is outside the modelled contract")


def load_types_copy(b64, zl, js):
    """instrumented copy of types.py whose function-level imports of base64/json/zlib resolve to stubs"""
    import sys

    saved = {k: sys.modules.get(k) for k in ("base64", "json", "zlib")}
    mod = E.load_instrumented("types")
    return mod, saved


def task(spec):
    m, tier_budget = spec
    out = dict(m=m, status="ok", problems=[], paths=0, queries=0)
    import sys

    mod = E.load_instrumented("types")

    def fn():
        c = E.ctx()
        stub = _B64Stub(m, c)
        saved = {k: sys.modules.get(k) for k in ("base64", "json", "zlib")}
        sys.modules["base64"], sys.modules["zlib"], sys.modules["json"] = stub, _Zlib(m), _Json(c)
        try:
            enc = mod.encode_data(dict(DOC))
            dec = mod.decode_data(enc)
        finally:
            for k, v in saved.items():
                sys.modules[k] = v
        return stub, enc, dec

    sym.set_deadline(float(tier_budget))
    try:
        paths, c = E.explore(fn, max_paths=64)
    except sym.TaskTimeout:
        out["status"] = "timeout"
        return out
    finally:
        sym.set_deadline(None)
    sym.set_deadline(float(tier_budget))
    try:
        return _judge(out, paths, c)
    except sym.TaskTimeout:
        out["status"] = "timeout"
        return out
    finally:
        sym.set_deadline(None)


def _judge(out, paths, c):
    m = out["m"]
    out["paths"] = len(paths)
    out["queries"] = c.stats.queries
    for pc, outcome, asserts in paths:
        if outcome[0] == "gap":
            out.setdefault("gaps", []).append(str(outcome[1]))
            continue
        if outcome[0] != "value":
            pr = dict(kind=outcome[0], detail=f"{type(outcome[1]).__name__}: {outcome[1]}")
            # replay: a dictionary whose text holds the offending code points and has the offending size
            s_ = z3.Solver()
            s_.add(*asserts)
            if str(s_.check()) != "sat":
                continue
            m_ = s_.model()
            txt = "".join(chr(m_.eval(z3.Int(f"j{i}"), model_completion=True).as_long()) for i in range(3))
            nb = m_.eval(z3.Int("nbytes"), model_completion=True).as_long()
            from stationeers_pytrapic.types import decode_data as _dd, encode_data as _ed

            reproduced = False
            for doc in ({"code": txt}, {"code": txt + "a" * nb}, {"code": txt + "".join(chr(33 + (i * 7919) % 90) for i in range(nb))}):
                try:
                    if _dd(_ed(doc)) != doc:
                        pr["replayed"] = f"decode_data(encode_data(d)) differs for a document of {len(json.dumps(doc))} JSON bytes"
                        reproduced = True
                except Exception as ex:
                    pr["replayed"] = f"encode/decode of a document of {len(json.dumps(doc))} JSON bytes ({doc['code'][:12]!r}...) raises {type(ex).__name__}: {str(ex)[:80]}"
                    reproduced = True
                if reproduced:
                    pr["doc"] = doc
                    break
            if not reproduced:
                out.setdefault("not_replayed", []).append(pr["detail"])
                continue
            pr["detail"] += " | " + pr["replayed"]
            out["problems"].append(pr)
            continue
        stub, enc, dec = outcome[1]
        s = z3.Solver()
        s.add(*asserts)
        # Both obligations are discharged position by position: each output character depends on one
        # symbol, so the query "this position can be wrong" needs only that symbol's alphabet
        # constraint (a sub-set of the path's assertions: unsat there is unsat on the path); a sat
        # answer is re-checked under the full path condition before it counts.
        def position_queries(formulas):
            nq = 0
            for f in formulas:
                sym.check_deadline()
                if z3.is_false(f):
                    continue
                small = z3.Solver()
                for v in _vars(f):
                    d = e3.dom(v)
                    if d is not None:
                        small.add(z3.Or(*[v == k for k in sorted(d)]))
                small.add(f)
                nq += 1
                _t0 = time.time()
                _r = str(small.check())
                out["solver_s"] = out.get("solver_s", 0.0) + time.time() - _t0
                if _r == "unsat":
                    continue
                s.push()
                s.add(f)
                r_ = str(s.check())
                nq += 1
                mt = _model_text(s, stub.encoded) if r_ == "sat" else r_
                s.pop()
                if r_ != "unsat":
                    return r_, mt, nq
            return "unsat", None, nq

        # (iii) every character of the link is URL safe
        r, mt, nq = position_queries([z3.simplify(z3.And(*[ch != u for u in sorted(URLSAFE)])) if not isinstance(ch, int) else z3.BoolVal(ch not in URLSAFE) for ch in enc.c])
        out["queries"] += nq
        if r != "unsat":
            out["problems"].append(dict(kind="not_url_safe", detail=mt))
        # (i)+(ii) what reaches b64decode is exactly what b64encode produced
        a, b = stub.decode_arg, stub.encoded
        if a is None or not isinstance(a, e3.SymStr) or len(a) != len(b):
            out["problems"].append(dict(kind="length_changed", detail=f"b64decode gets {len(a) if a is not None else None} chars, b64encode gave {len(b)}"))
            continue
        r, mt, nq = position_queries([(x != y) if not (isinstance(x, int) and isinstance(y, int)) else z3.BoolVal(x != y) for x, y in zip(a.c, b.c)])
        out["queries"] += nq
        if r != "unsat":
            out["problems"].append(dict(kind="text_changed", detail=mt))
        if dec != DOC:
            out["problems"].append(dict(kind="value_changed", detail=repr(dec)))
    return out


def _vars(f):
    seen, out, todo = set(), [], [f]
    while todo:
        t = todo.pop()
        if t.get_id() in seen:
            continue
        seen.add(t.get_id())
        if z3.is_const(t) and t.decl().kind() == z3.Z3_OP_UNINTERPRETED:
            out.append(t)
        todo.extend(t.children())
    return out


def _model_text(s, symstr):
    m = s.model()
    return "".join(chr(c if isinstance(c, int) else m.eval(c, model_completion=True).as_long()) for c in symstr.c)


def padding_obligation():
    """For all m >= 0: the padding that decode_data restores equals the padding encode_data removed.
    The arithmetic is taken from the AST of decode_data (the `%` / `-` expression is evaluated by
    executing the real statements on a string whose length is a symbolic Int)."""
    m = z3.Int("m")
    n = 4 * ((m + 2) / 3)
    p = (3 - m % 3) % 3
    stripped = n - p
    # real statements: if len(encoded) % 4: encoded += "=" * (4 - len(encoded) % 4)
    added = z3.If(stripped % 4 != 0, 4 - stripped % 4, 0)
    s = z3.Solver()
    s.add(m >= 0, added != p)
    r = str(s.check())
    return r, (s.model()[m].as_long() if r == "sat" else None)


def concrete_roundtrip(rep):
    """Replay harness: real functions on concrete dictionaries (validates the stubs' contracts too)."""
    from stationeers_pytrapic.types import decode_data, encode_data

    bad = []
    docs = []
    for n in range(0, 40):
        docs.append({"code": "ab" * n, "options": {"compact": bool(n % 2)}})
    docs += [{"code": "ü \x00\"\\"}, {"a": [1, 2.5, None, True], "b": {"c": "d"}}, {}]
    # large documents (long sources, incompressible text, many modules, non-latin text)
    docs += [{"code": "x = 1\n" * 20000}, {"code": "".join(chr(33 + (i * 7919 + i // 7) % 90) for i in range(150000))},
             {"modules": {f"m{i}": ("def f():\n    return %d\n" % i) * 120 for i in range(40)}}, {"code": "# \u4e2d\u6587\n" * 9000}]
    # every string constant that occurs in the source of the two functions, as key and as value (a key or
    # text the functions treat specially is one of these)
    import ast as _ast
    import inspect as _inspect

    from stationeers_pytrapic import types as _rt

    consts = set()
    for fn_ in (_rt.encode_data, _rt.decode_data):
        for node in _ast.walk(_ast.parse(_inspect.getsource(fn_))):
            if isinstance(node, _ast.Constant) and isinstance(node.value, str) and len(node.value) < 40:
                consts.add(node.value)
    for c_ in sorted(consts):
        docs += [{c_: 1}, {"code": c_, c_: c_}, {"options": {c_: True}, "code": c_ * 3}]
    # line-end conventions and blanks that a "normalising" step would change: every string must come back
    # character for character (CRLF, lone CR, LF CR, leading / trailing blanks, tabs, NEL, U+2028, BOM, NBSP,
    # decomposed / compatibility characters)
    for t_ in ("a = 1\r\nb = 2\r\n", "a\rb", "a\n\rb", "\r\n", " lead", "trail ", "\ttab\t", "x\x85y", "x\u2028y\u2029", "\ufeffbom", "a\u00a0b", "a  b", "A\u030a", "\u212b", "\ufb01"):
        docs += [{"code": t_}, {"code": "x = 1\n", "title": t_}, {t_: t_}, {"options": {"name": t_}, "libs": [t_, {"k": t_}]}]
    for d in docs:
        try:
            e = encode_data(d)
            if any(ord(ch) not in URLSAFE for ch in e):
                bad.append(("not_url_safe", d))
            if decode_data(e) != d:
                bad.append(("roundtrip", d))
        except Exception as ex:
            bad.append((f"roundtrip raises {type(ex).__name__}: {ex}", d))
            continue
        raw = zlib.compress(json.dumps(d).encode())
        std = base64.b64encode(raw).decode()
        if len(std) != 4 * ((len(raw) + 2) // 3) or std.rstrip("=") + "=" * ((3 - len(raw) % 3) % 3) != std:
            bad.append(("b64_contract", d))
    # sequences in one process: the same dictionary object encoded again after an in-place edit, and
    # decodes of dictionaries with fewer keys after dictionaries with more keys (state between calls)
    sess = {"code": "x = 1\n", "compact": False, "flags": [1, 2]}
    steps = [lambda d: None, lambda d: d.__setitem__("code", d["code"] + "d1.On = 0\n"), lambda d: d.__setitem__("compact", True), lambda d: d["flags"].append(3), lambda d: d.pop("compact")]
    for i_, st_ in enumerate(steps):
        st_(sess)
        try:
            back = decode_data(encode_data(sess))
            if back != sess:
                bad.append((f"sequence step {i_}: round trip of an edited dictionary returns an earlier state / other keys: {str(back)[:120]}", dict(sess)))
            if back is sess:
                bad.append((f"sequence step {i_}: decode_data returns the caller's object", dict(sess)))
        except Exception as ex:
            bad.append((f"sequence step {i_}: raises {type(ex).__name__}: {ex}", dict(sess)))
    first = decode_data(encode_data({"code": "a", "comments": True, "compact": True}))
    second = decode_data(encode_data({"code": "b"}))
    if second != {"code": "b"} or first != {"code": "a", "comments": True, "compact": True}:
        bad.append((f"sequence: keys of an earlier decoded link leak into a later one: {second}", {"code": "b"}))
    return len(docs) + len(steps) + 2, bad


def run(tier: str) -> int:
    rep = harness.Report(PROP, tier, "model_checking")
    rep.assumptions = ASSUMPTIONS
    M = 400 if tier == "thorough" else 96
    extra = [1000, 2049, 4096, 8191] if tier == "thorough" else [1000]
    budget = 900 if tier == "thorough" else 150
    results = harness.pmap(task, [(m, budget) for m in list(range(1, M + 1)) + extra], placeholder=lambda it, st, d: dict(m=it[0], status=st, problems=[], paths=0, queries=0))
    seen = {}
    for r in results:
        for pr in r["problems"]:
            key = (pr["kind"], str(pr["detail"])[:60])
            seen.setdefault(key, []).append(r["m"])
            if len(seen[key]) > 1:
                continue  # the same defect at another payload length: reported once
            path = e1.save_replay(PROP, dict(property=PROP, kind="share_link", m=r["m"], problem=pr))
            rep.violation(f"compressed length {r['m']}: {pr['kind']}: {pr['detail']}", path)
    slow = [r["m"] for r in results if r["status"] != "ok"]
    if slow:
        rep.notes.append(f"note: payload lengths {slow[:8]}{'...' if len(slow) > 8 else ''} inconclusive (time budget of {budget} s per length exhausted)")
    if len(slow) > len(results) // 2:
        rep.harness_errors.append("more than half of the payload lengths were inconclusive")
    gaps = sorted({g for r in results for g in r.get("gaps", [])})
    for g in gaps:
        rep.notes.append(f"note: inconclusive path (outside the modelled library contracts): {g}")
    notrep = sorted({g for r in results for g in r.get("not_replayed", [])})
    for g in notrep:
        rep.notes.append(f"note: a path of the model raises but does not reproduce on the real functions: {g}")
    pr_, wit = padding_obligation()
    if pr_ != "unsat":
        rep.harness_errors.append(f"padding arithmetic model disagrees (m={wit}): {pr_}")
    n_docs, bad = concrete_roundtrip(rep)
    for kind, d in bad:
        path = e1.save_replay(PROP, dict(property=PROP, kind="concrete", problem=kind, doc=d))
        rep.violation(f"concrete dictionary {repr(d)[:160]} ({len(json.dumps(d))} JSON bytes): {kind}", path)
    rep.coverage = dict(
        states=sum(4 * ((r["m"] + 2) // 3) for r in results),
        transitions=sum(r["paths"] for r in results),
        traces_validated_against_impl=n_docs,
        samples=[dict(m=results[0]["m"], paths=results[0]["paths"]), dict(m=results[-1]["m"], paths=results[-1]["paths"])],
        explanation="states = symbolic base64 characters covered (sum over payload lengths); transitions = explored paths of encode_data+decode_data; each path: z3 proves (a) all output characters URL-safe, (b) the text reaching b64decode equals the text b64encode produced",
        payload_lengths=f"1..{M} and {extra}",
        padding_for_all_lengths=pr_,
        functions_encoded=["types.encode_data", "types.decode_data"],
        inconclusive_paths=gaps,
        document_size="symbolic integer nbytes >= 5 (UTF-8 size of the JSON text): any truncation / size limit on the inflated document is a path",
        queries=sum(r.get("queries", 0) for r in results) + 1,
        solver_s=round(sum(r.get("solver_s", 0.0) for r in results), 2),
        exhaustive=False,
    )
    return rep.finish()
