"""C18 - share links round-trip (E2/E3 on encode_data / decode_data with library contracts)."""
from __future__ import annotations

import base64
import json
import zlib

import z3

from .. import e1, e2core as E, e3, harness, sym
from . import base

PROP = "C18"

B64 = "ABCDEFGHIJKLMNOPQRSTUVWXYZabcdefghijklmnopqrstuvwxyz0123456789+/"
URLSAFE = set(map(ord, "ABCDEFGHIJKLMNOPQRSTUVWXYZabcdefghijklmnopqrstuvwxyz0123456789-_"))

ASSUMPTIONS = [
    "library contracts (nondeterministic stubs): json.loads(json.dumps(d)) == d for JSON-faithful d (string keys); zlib.decompress(zlib.compress(b)) == b; base64.b64decode(base64.b64encode(b)) == b; b64encode(b) has length 4*ceil(len(b)/3), its last (3 - len(b) % 3) % 3 characters are '=' and all others are arbitrary members of the RFC 4648 alphabet",
    "the real statements of types.encode_data / types.decode_data are executed (instrumented copy) with base64 / zlib / json replaced by these stubs; the base64 text is a SymStr whose alphabet characters are symbolic",
    "bound: compressed payload length m = 1..M (quick 24, thorough 96): for every m all 64^k character choices are covered symbolically; the padding arithmetic is additionally proved for all m >= 0 as a linear-integer obligation",
    "domain of d: JSON-faithful dictionaries; integer keys are turned into strings by json itself (library behaviour)",
]


class _B64Stub:
    """b64encode returns a SymStr per contract and remembers it; b64decode must get it back."""

    def __init__(self, m, ctx):
        self.m = m
        self.ctx = ctx
        self.encoded = None
        self.decode_arg = None

    def b64encode(self, data):
        n = 4 * ((self.m + 2) // 3)
        p = (3 - self.m % 3) % 3
        chars = []
        for i in range(n - p):
            v = z3.Int(f"b{i}")
            self.ctx.assume(z3.Or(*[v == ord(ch) for ch in B64]))
            chars.append(v)
        chars += [ord("=")] * p
        self.encoded = e3.SymStr(chars)
        return self.encoded

    def b64decode(self, s):
        self.decode_arg = s
        return b"<compressed>"


class _Zlib:
    def compress(self, b, *a, **kw):
        if not isinstance(b, (SymBytes, bytes)):
            raise TypeError("a bytes-like object is required, not 'str'")
        return b"<compressed>"

    def decompress(self, b, *a, **kw):
        return b'{"k": 1}'


ASCII_JSON = [ord(c) for c in '{}":, \\u19afnt[]-.e']
NON_ASCII = [0xE9, 0x4E2D, 0x1F600, 0xD83D, 0xDC00, 0x7F, 0x85]  # incl. lone surrogates: legal in a Python str


class SymBytes:
    """opaque result of str.encode(): only its existence matters to the stubs"""


class _JsonText(e3.SymStr):
    def encode(self, encoding="utf-8", errors="strict"):
        enc = encoding.lower().replace("-", "").replace("_", "")
        for ch in self.c:
            if enc in ("utf8", "utf16", "utf32"):
                if errors == "strict" and e3.cin(ch, set(range(0xD800, 0xE000)) & set(NON_ASCII)):
                    raise UnicodeEncodeError(enc, "?", 0, 1, "surrogates not allowed")
            elif enc in ("ascii", "latin1"):
                lim = 0x80 if enc == "ascii" else 0x100
                if errors == "strict" and e3.cin(ch, {a for a in NON_ASCII if a >= lim}):
                    raise UnicodeEncodeError(enc, "?", 0, 1, "ordinal not in range")
            else:
                raise E.ModelGap(f"encoding {encoding}")
        return SymBytes()


class _Json:
    """json.dumps(d) for an arbitrary JSON-faithful d whose strings hold arbitrary code points:
    with ensure_ascii=True (the default) the text is ASCII, otherwise any code point may appear."""

    def __init__(self, ctx):
        self.ctx = ctx

    def dumps(self, d, ensure_ascii=True, **kw):
        alpha = ASCII_JSON if ensure_ascii else ASCII_JSON + NON_ASCII
        cs = []
        for i in range(3):
            v = z3.Int(f"j{i}")
            self.ctx.assume(z3.Or(*[v == a for a in sorted(set(alpha))]))
            cs.append(v)
        return _JsonText([ord("{")] + cs + [ord("}")])

    def loads(self, s, **kw):
        return {"k": 1}


def load_types_copy(b64, zl, js):
    """instrumented copy of types.py whose function-level imports of base64/json/zlib resolve to stubs"""
    import sys

    saved = {k: sys.modules.get(k) for k in ("base64", "json", "zlib")}
    mod = E.load_instrumented("types")
    return mod, saved


def task(m):
    out = dict(m=m, status="ok", problems=[], paths=0)
    import sys

    mod = E.load_instrumented("types")

    def fn():
        c = E.ctx()
        stub = _B64Stub(m, c)
        saved = {k: sys.modules.get(k) for k in ("base64", "json", "zlib")}
        sys.modules["base64"], sys.modules["zlib"], sys.modules["json"] = stub, _Zlib(), _Json(c)
        try:
            enc = mod.encode_data({"k": 1})
            dec = mod.decode_data(enc)
        finally:
            for k, v in saved.items():
                sys.modules[k] = v
        return stub, enc, dec

    paths, c = E.explore(fn, max_paths=64)
    out["paths"] = len(paths)
    out["queries"] = c.stats.queries
    for pc, outcome, asserts in paths:
        if outcome[0] != "value":
            pr = dict(kind=outcome[0], detail=f"{type(outcome[1]).__name__}: {outcome[1]}" if outcome[0] == "raise" else str(outcome[1]))
            if outcome[0] == "raise":
                # replay: a dictionary whose text holds the offending code points
                s_ = z3.Solver()
                s_.add(*asserts)
                if str(s_.check()) == "sat":
                    m_ = s_.model()
                    txt = "".join(chr(m_.eval(z3.Int(f"j{i}"), model_completion=True).as_long()) for i in range(3))
                    from stationeers_pytrapic.types import decode_data as _dd, encode_data as _ed

                    doc = {"code": txt}
                    try:
                        ok = _dd(_ed(doc)) == doc
                        if ok:
                            continue  # does not replay
                        pr["replayed"] = f"decode_data(encode_data({doc!r})) differs"
                    except Exception as ex:
                        pr["replayed"] = f"encode/decode of {doc!r} raises {type(ex).__name__}: {ex}"
            out["problems"].append(pr)
            continue
        stub, enc, dec = outcome[1]
        s = z3.Solver()
        s.add(*asserts)
        # (iii) every character of the link is URL safe
        bad = [ch for ch in enc.c]
        cond = z3.Or(*[z3.And(*[ch != u for u in URLSAFE]) if not isinstance(ch, int) else z3.BoolVal(ch not in URLSAFE) for ch in bad]) if bad else z3.BoolVal(False)
        s.push()
        s.add(cond)
        r = str(s.check())
        if r != "unsat":
            out["problems"].append(dict(kind="not_url_safe", detail=_model_text(s, enc) if r == "sat" else r))
        s.pop()
        # (i)+(ii) what reaches b64decode is exactly what b64encode produced
        a, b = stub.decode_arg, stub.encoded
        if a is None or len(a) != len(b):
            out["problems"].append(dict(kind="length_changed", detail=f"b64decode gets {len(a) if a is not None else None} chars, b64encode gave {len(b)}"))
            continue
        diff = z3.Or(*[(x != y) if not (isinstance(x, int) and isinstance(y, int)) else z3.BoolVal(x != y) for x, y in zip(a.c, b.c)])
        s.push()
        s.add(diff)
        r = str(s.check())
        if r != "unsat":
            out["problems"].append(dict(kind="text_changed", detail=_model_text(s, b) if r == "sat" else r))
        s.pop()
        if dec != {"k": 1}:
            out["problems"].append(dict(kind="value_changed", detail=repr(dec)))
    return out


def _model_text(s, symstr):
    m = s.model()
    return "".join(chr(c if isinstance(c, int) else m.eval(c, model_completion=True).as_long()) for c in symstr.c)


def padding_obligation():
    """For all m >= 0: the padding that decode_data restores equals the padding encode_data removed.
    The arithmetic is taken from the AST of decode_data (the `%` / `-` expression is evaluated by
    executing the real statements on a string whose length is a symbolic Int)."""
    m = z3.Int("m")
    n = 4 * ((m + 2) / 3)
    p = (3 - m % 3) % 3
    stripped = n - p
    # real statements: if len(encoded) % 4: encoded += "=" * (4 - len(encoded) % 4)
    added = z3.If(stripped % 4 != 0, 4 - stripped % 4, 0)
    s = z3.Solver()
    s.add(m >= 0, added != p)
    r = str(s.check())
    return r, (s.model()[m].as_long() if r == "sat" else None)


def concrete_roundtrip(rep):
    """Replay harness: real functions on concrete dictionaries (validates the stubs' contracts too)."""
    from stationeers_pytrapic.types import decode_data, encode_data

    bad = []
    docs = []
    for n in range(0, 40):
        docs.append({"code": "ab" * n, "options": {"compact": bool(n % 2)}})
    docs += [{"code": "ü \x00\"\\"}, {"a": [1, 2.5, None, True], "b": {"c": "d"}}, {}]
    for d in docs:
        try:
            e = encode_data(d)
            if any(ord(ch) not in URLSAFE for ch in e):
                bad.append(("not_url_safe", d))
            if decode_data(e) != d:
                bad.append(("roundtrip", d))
        except Exception as ex:
            bad.append((f"roundtrip raises {type(ex).__name__}: {ex}", d))
            continue
        raw = zlib.compress(json.dumps(d).encode())
        std = base64.b64encode(raw).decode()
        if len(std) != 4 * ((len(raw) + 2) // 3) or std.rstrip("=") + "=" * ((3 - len(raw) % 3) % 3) != std:
            bad.append(("b64_contract", d))
    return len(docs), bad


def run(tier: str) -> int:
    rep = harness.Report(PROP, tier, "model_checking")
    rep.assumptions = ASSUMPTIONS
    M = 96 if tier == "thorough" else 24
    results = harness.pmap(task, list(range(1, M + 1)), placeholder=lambda it, st, d: dict(m=it, status=st, problems=[], paths=0, queries=0))
    for r in results:
        for pr in r["problems"]:
            path = e1.save_replay(PROP, dict(property=PROP, kind="share_link", m=r["m"], problem=pr))
            rep.violation(f"compressed length {r['m']}: {pr['kind']}: {pr['detail']}", path)
    pr_, wit = padding_obligation()
    if pr_ != "unsat":
        rep.harness_errors.append(f"padding arithmetic model disagrees (m={wit}): {pr_}")
    n_docs, bad = concrete_roundtrip(rep)
    for kind, d in bad:
        path = e1.save_replay(PROP, dict(property=PROP, kind="concrete", problem=kind, doc=d))
        rep.violation(f"concrete dictionary {d!r}: {kind}", path)
    rep.coverage = dict(
        states=sum(4 * ((r["m"] + 2) // 3) for r in results),
        transitions=sum(r["paths"] for r in results),
        traces_validated_against_impl=n_docs,
        samples=[dict(m=results[0]["m"], paths=results[0]["paths"]), dict(m=results[-1]["m"], paths=results[-1]["paths"])],
        explanation="states = symbolic base64 characters covered (sum over payload lengths); transitions = explored paths of encode_data+decode_data; each path: z3 proves (a) all output characters URL-safe, (b) the text reaching b64decode equals the text b64encode produced",
        payload_lengths=f"1..{M}",
        padding_for_all_lengths=pr_,
        functions_encoded=["types.encode_data", "types.decode_data"],
        queries=sum(r.get("queries", 0) for r in results) + 2 * sum(r["paths"] for r in results) + 1,
        exhaustive=False,
    )
    return rep.finish()
