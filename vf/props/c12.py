"""C12 - constexpr calls are replaced by exactly what the function returns."""
from __future__ import annotations

import random
import re

from .. import comp, e1, harness, ic10
from . import base

PROP = "C12"
SOLVER = {'functions_encoded': ['utils.eval_constexpr (executed, child process)', 'emitted IC10 -> vf.ic10.Machine vs source -> vf.source.Interp with the decorated functions evaluated by Python']}
HDR = base.witness.HDR

ASSUMPTIONS = [
    "source side: the decorated function is evaluated by ordinary Python (exec of its own source; HASH = independent signed CRC-32; enums from the statically extracted tables); the compiled output is compared with it on the symbolic IC10 machine for all device inputs",
    "closed: no label / instruction is attributable to a decorated function (instruction owners captured at the allocator call); bodies containing open / eval / exec are rejected",
    "fixed families: HASH() inside a constexpr body on 20 unusual but legal strings (empty, quotes, HASH(\"..\") text, escapes, non-ASCII); 11 argument / result kinds that cross the process boundary (negative, bool, big, fractions, keyword-only, nested call arguments, enum members, math); these must compile",
    "family: seeded constexpr bodies (int / float arithmetic, shifts, or-ing bit fields, if/else, defaults and keyword arguments, HASH of a string argument, enum members, one constexpr calling another) x call positions (main statement, inside an expression with device reads, argument of a user function, body of a user function, library module, library constexpr called from main)",
    "the 1 s limit of the constexpr child process is lifted to 60 s by the harness (subprocess.Popen.communicate wrapped in the worker): timing is C10's subject, and under CPU load every evaluation would be inconclusive",
    "sequence scenarios: programs that differ only in a library constexpr body / a default value are compiled back to back in one process (the evaluation cache is process-global); each output is compared with ordinary Python evaluation of its own sources",
]

ENUMS = ["SorterInstruction.FilterPrefabHashEquals", "SorterInstruction.FilterSortingClassCompare", "SortingClass.Ores", "LogicType.Setting", "Color.Red", "DisplayMode.String"]


def gen_constexpr(r: random.Random, name: str, others):
    kind = r.choice(["bits", "arith", "hash", "branch", "chain"] if others else ["bits", "arith", "hash", "branch"])
    if kind == "bits":
        body = [f"def {name}(a, b=2):", f"    x = a << {r.randrange(1, 17)} | b << {r.randrange(0, 8)}", f"    return x | {r.choice(['0x01', '0x02', '3'])}"]
        call = lambda: f"{name}({r.randrange(0, 40)}" + r.choice(["", f", {r.randrange(0, 9)}", f", b={r.randrange(0, 9)}"]) + ")"
    elif kind == "arith":
        op = r.choice(["+", "-", "*"])
        body = [f"def {name}(a, b):", f"    t = a {op} b", f"    return (t * {r.choice([2, 3, 0.5, 0.25])}) + {r.choice(ENUMS)}"]
        call = lambda: f"{name}({r.choice([1, 2, 7, 0.5, 10])}, {r.choice([3, 4, 1.5, 100])})"
    elif kind == "hash":
        body = [f"def {name}(txt, count={r.randrange(1, 60)}):", f"    return HASH(txt) << {r.choice([8, 16])} | count << {r.choice([0, 8])} | {r.choice(['0x02', '1'])}"]
        call = lambda: f"{name}(\"{r.choice(['ItemSteelIngot', 'ItemIronOre', 'abc', 'Main'])}\"" + r.choice(["", f", {r.randrange(1, 99)}", f", count={r.randrange(1, 99)}"]) + ")"
    elif kind == "branch":
        body = [f"def {name}(n, negate=False):", "    v = n * 4", "    if negate:", f"        v = v + {r.choice(ENUMS)}", "    elif n > 5:", "        v = v - 1", "    return v"]
        call = lambda: f"{name}({r.randrange(0, 12)}" + r.choice(["", ", True", ", negate=True", ", negate=False"]) + ")"
    else:
        o = r.choice(others)
        body = [f"def {name}(k):", f"    return {o[1]()} + k"]
        call = lambda: f"{name}({r.randrange(0, 30)})"
    return ["@constexpr"] + body + [""], call


def gen_program(seed):
    r = random.Random(seed)
    lines = [HDR]
    ces = []
    for i in range(r.randrange(1, 4)):
        name = f"ce{i}"
        src, call = gen_constexpr(r, name, ces)
        lines += src
        ces.append((name, call))
    lines += ["def user(p, q):", "    db.Mode = p + q", f"    d2.Setting = {r.choice(ces)[1]()}", "    return p - q", ""]
    sinks = ["db.Setting", "d0.Setting", "d1.On", "Stack(d3)[0]", 'GrowLights["x"].On']
    for _ in range(r.randrange(2, 5)):
        c = r.choice(ces)[1]()
        k = r.random()
        if k < 0.35:
            lines.append(f"{r.choice(sinks)} = {c}")
        elif k < 0.6:
            lines.append(f"{r.choice(sinks)} = {c} + d{r.randrange(6)}.Setting")
        elif k < 0.8:
            lines.append(f"{r.choice(sinks)} = user({c}, d4.Setting)")
        else:
            lines.append(f"if d5.Setting > {c}:")
            lines.append(f"    {r.choice(sinks)} = {r.choice(ces)[1]()} * 2")
    lines.append("db.On = user(1, 2)")
    main = "\n".join(lines) + "\n"
    if r.random() < 0.35:
        # move the constexpr functions into a library module and call them as lib.ceN(...)
        lib_lines = [HDR]
        r2 = random.Random(seed + 1)
        ces2 = []
        for i in range(2):
            src, call = gen_constexpr(r2, f"lc{i}", [])  # siblings are invisible inside the generated class body (known finding)
            lib_lines += src
            ces2.append((f"lc{i}", call))
        # (a library constexpr called from the library's own code is rejected: known finding)
        lib_lines += ["def apply(v):", "    d3.Setting = v + 1", ""]
        main2 = main.replace(HDR, HDR + "from library import lib\n", 1) + f"d4.Setting = lib.{ces2[1][1]()}\nlib.apply(d0.On)\nlib.apply(2)\n"
        return {"": main2, "lib": "\n".join(lib_lines) + "\n"}, [n for n, _ in ces] + [n for n, _ in ces2]
    return main, [n for n, _ in ces]


# strings a constexpr function may legally pass to HASH(): HASH is the plain signed CRC-32 of the text
# (no unquoting, no unwrapping of HASH("..") text, no special empty string)
SPECIAL_STRINGS = ["", '"', '"ItemIronOre"', 'HASH("ItemIronOre")', "a b", "#1", "it's", "x\\y", "\u00e9", " lead", "tab\tx", "{}", "%s", "a,b", "0",
                   "__register.1_", 'STR("ab")', "'quoted'", "a\nb", "None"]

# value kinds that cross the process boundary (arguments are re-serialised as source text, results as JSON)
VALUE_KINDS = {
    "neg": ("@constexpr\ndef neg(a):\n    return -a\n", ["neg(-7)", "neg(2.5)", "neg(0)", "neg(-0.125)"]),
    "bool_result": ("@constexpr\ndef flag(a):\n    return a > 3\n", ["flag(5)", "flag(1)", "flag(7) + 2"]),
    "bool_arg": ("@constexpr\ndef sel(c, a, b):\n    return a if c else b\n", ["sel(True, 4, 9)", "sel(False, 4, 9)", "sel(0, 4, 9)"]),
    "big": ("@constexpr\ndef big(k):\n    return 2 ** 40 + k\n", ["big(1)", "big(-3)"]),
    "fraction": ("@constexpr\ndef frac(a, b):\n    return a / b\n", ["frac(1, 3)", "frac(-2, 7)", "frac(1, 1024)", "frac(10, 4)"]),
    "keyword_only": ("@constexpr\ndef kw(a, *, scale=2):\n    return a * scale\n", ["kw(3)", "kw(3, scale=5)"]),
    "string_ops": ("@constexpr\ndef s2n(txt):\n    return len(txt) * 256 + ord(txt[0])\n", ["s2n('abc')", 's2n("x y")']),
    "nested_arg": ("@constexpr\ndef inc(a):\n    return a + 1\n", ["inc(inc(3))", "inc(2 * 3 + 1)", "inc(-(4))", "inc(1 if 2 > 1 else 5)"]),
    "enum_arg": ("@constexpr\ndef ev(e, k):\n    return e * 100 + k\n", ["ev(LogicType.Setting, 1)", "ev(SortingClass.Ores, 2)"]),
    "small": ("@constexpr\ndef tiny(k):\n    return k / 1000000\n", ["tiny(5)", "tiny(-25)", "tiny(123456)"]),
    "unsigned32": ("@constexpr\ndef mask(b):\n    return 0xFF << b\n", ["mask(24)", "mask(23)", "mask(31)", "mask(32)"]),
    "int_edges": ("@constexpr\ndef edge(k):\n    return 2 ** 31 + k\n", ["edge(0)", "edge(-1)", "edge(2 ** 31 - 1)", "edge(2 ** 31)"]),
    "unsigned_hash": ("@constexpr\ndef uhash(name):\n    return HASH(name) & 0xFFFFFFFF\n", ['uhash("ItemSteelIngot")', 'uhash("ItemIronIngot")', 'uhash("abc")']),
    "math": ("@constexpr\ndef m(a):\n    import math\n    return math.floor(a) + math.sqrt(16)\n", ["m(2.7)", "m(-2.7)"]),
}


def fixed_programs():
    out = []
    for i in range(0, len(SPECIAL_STRINGS), 2):
        ss = SPECIAL_STRINGS[i:i + 2]
        src = HDR + "@constexpr\ndef tag(txt, k=1):\n    return HASH(txt) << 8 | k\n\n@constexpr\ndef plain(txt):\n    return HASH(txt)\n\n"
        for j, s_ in enumerate(ss):
            src += f"d{j}.Setting = tag({s_!r})\nd{j + 2}.Setting = plain({s_!r}) + d5.Setting\nd{j}.Mode = tag({s_!r}, k=7)\n"
        out.append((f"hash_string:{i}", src, ["tag", "plain"]))
    # several library modules that each define constexpr functions (the child script holds one class
    # per module), equal function names in the modules and in main
    libs = {
        "": HDR + "from library import codes\nfrom library import units as u\nfrom library import third\n\n@constexpr\ndef pack(a, b=1):\n    return a * 1000 + b\n\n"
                  "db.Setting = codes.pack(\"ItemIronIngot\", 3)\nd0.Setting = u.kelvin(-40)\nd1.Setting = pack(7)\nd2.Setting = u.pack(2, 3) + d5.Setting\nd3.Setting = third.pack(5)\nd4.Setting = codes.pack(\"abc\") + pack(1, b=2)\n",
        "codes": HDR + "@constexpr\ndef pack(name, count=1):\n    return HASH(name) << 8 | count\n",
        "units": HDR + "@constexpr\ndef kelvin(c):\n    return c + 273.25\n\n@constexpr\ndef pack(a, b):\n    return a * 16 + b\n",
        "third": HDR + "@constexpr\ndef pack(a):\n    return -a\n",
    }
    out.append(("libraries:three_with_constexpr", libs, ["pack", "kelvin"]))
    for k, (fn, calls) in VALUE_KINDS.items():
        src = HDR + fn + "\n" + "".join(f"d{i}.Setting = {c}\n" for i, c in enumerate(calls)) + "db.Setting = " + calls[0] + " + d5.On\n"
        out.append((f"value_kind:{k}", src, [fn.split("def ")[1].split("(")[0]]))
    return out


EXACT = {
    "serial": ("@constexpr\ndef serial(k):\n    return 2 ** 53 + k\n", ["serial(0)", "serial(1)", "serial(3)", "serial(-1)", "serial(2 ** 53 + 5)"]),
    "pack2": ("@constexpr\ndef pack2(a, b):\n    return (HASH(a) & 0xFFFFFFFF) << 32 | (HASH(b) & 0xFFFFFFFF)\n", ['pack2("ItemIronIngot", "ItemCopperIngot")', 'pack2("a", "b")']),
    "small": ("@constexpr\ndef small(k):\n    return k * 1000 + 7\n", ["small(12)", "small(-12)", "small(0)"]),
    "shift": ("@constexpr\ndef shift(k):\n    return (1 << k) + 1\n", ["shift(31)", "shift(32)", "shift(52)", "shift(53)", "shift(60)", "shift(63)"]),
}


def exact_literal_obligations():
    """The literal printed for an integer constexpr result is that integer, digit for digit (the chip
    rounds above 2^53, the text must not): direct operand use in main code and inside a function body."""
    import zlib

    rows, n = [], 0

    def hs(txt):
        v = zlib.crc32(txt.encode())
        return v - 2**32 if v >= 2**31 else v

    for name, (fn, calls) in EXACT.items():
        env = {"HASH": hs, "constexpr": lambda f: f}
        exec(fn, env)
        want = [eval(c, env) for c in calls]
        src = HDR + fn + "\ndef user(q):\n    d5.Setting = q + " + calls[-1] + "\n\n" + "".join(f"d{i % 5}.Setting = {c}\n" for i, c in enumerate(calls)) + "user(d0.On)\nuser(1)\n"
        cap = None
        for _ in range(3):
            cap = comp.compile_capture(src, append_version=False)
            if cap.ok or "Timeout during evaluating constexpr" not in (cap.error or ""):
                break
        if not cap.ok:
            rows.append(dict(kind="exact_literal", detail=f"{name}: rejected: {(cap.error or '')[:120]}"))
            continue
        stores = [l.split() for l in cap.code.split("\n") if l.split()[:1] == ["s"] and len(l.split()) == 4 and l.split()[1] != "d5"]
        lits = [t[3] for t in stores]
        adds = [t for t in (l.split() for l in cap.code.split("\n")) if t[:1] == ["add"]]
        for c, w, lit in zip(calls, want, lits):
            n += 1
            try:
                got = int(lit[1:], 16) if lit.startswith("$") else int(lit)
            except ValueError:
                rows.append(dict(kind="exact_literal", detail=f"{c}: emitted {lit!r}, Python returns {w}"))
                continue
            if got != w:
                rows.append(dict(kind="exact_literal", detail=f"{c}: emitted {lit} = {got}, Python returns {w}"))
        if adds:
            n += 1
            ops = [o for o in adds[-1][2:] if not ic10.REG_RE.match(o)]
            if ops:
                lit = ops[0]
                try:
                    got = int(lit[1:], 16) if lit.startswith("$") else int(lit)
                    if got != want[-1]:
                        rows.append(dict(kind="exact_literal", detail=f"{calls[-1]} inside a function body: emitted {lit} = {got}, Python returns {want[-1]}"))
                except ValueError:
                    rows.append(dict(kind="exact_literal", detail=f"{calls[-1]} inside a function body: emitted {lit!r}"))
    return n, rows


WITNESS_LIB_INTERNAL = {
    "": HDR + "from library import lib\nlib.apply(d0.On)\nlib.apply(2)\n",
    "lib": HDR + "@constexpr\ndef lc(a):\n    return a * 2\n\ndef apply(v):\n    d3.Setting = v + lc(4)\n",
}

def sequence_scenarios():
    """programs compiled one after the other in ONE process: each must still get the literals that
    ordinary Python evaluation of ITS OWN sources gives"""
    def prog(n, extra=""):
        return {"": HDR + "from library import sorter\n\n@constexpr\ndef instruction(name, count):\n    return sorter.opcode(name) << 8 | count\n\n"
                          "db.Setting = instruction(\"ItemIronOre\", 5)\nd0.Setting = sorter.opcode(\"abc\")\n" + extra,
                "sorter": HDR + f"@constexpr\ndef opcode(name):\n    return HASH(name) << 8 | {n}\n"}
    def single(k):
        return HDR + f"@constexpr\ndef scale(a, b=3):\n    return a * b + {k}\n\ndb.Setting = scale(4)\nd1.Setting = scale(2, b=5) + d0.Setting\n"
    return {
        "lib_edit": [prog(1), prog(2), prog(1)],
        "lib_edit_then_main": [prog(3), prog(3, "d2.Setting = 1\n"), prog(4, "d2.Setting = 1\n")],
        "body_edit": [single(0), single(1), single(0), single(2)],
    }


def task_seq(spec):
    outs = []
    for i, srcs in enumerate(spec["sequence"]):
        r = task(dict(name=f"{spec['name']}#{i}", sources=srcs, tier=spec.get("tier", "quick"), opts={}, ce_names=[], timeout=120))
        r["step"] = i
        r["sources"] = srcs
        outs.append(r)
    return outs


FORBIDDEN = {
    "open": HDR + "@constexpr\ndef ce(a):\n    f = open('/etc/hostname')\n    return a\n\ndb.Setting = ce(1)\n",
    "eval": HDR + "@constexpr\ndef ce(a):\n    return eval('a + 1')\n\ndb.Setting = ce(1)\n",
    "exec": HDR + "@constexpr\ndef ce(a):\n    exec('b = 2')\n    return a\n\ndb.Setting = ce(1)\n",
    "eval_bound": HDR + "@constexpr\ndef ce(a):\n    ev = eval\n    return ev('6*7') + a\n\ndb.Setting = ce(1)\n",
    "eval_passed": HDR + "@constexpr\ndef ce(a):\n    return list(map(eval, ['1', '2']))[0] + a\n\ndb.Setting = ce(1)\n",
    "exec_default": HDR + "@constexpr\ndef ce(a, run=exec):\n    run('b = 2')\n    return a\n\ndb.Setting = ce(1)\n",
    "open_bound": HDR + "@constexpr\ndef ce(a):\n    reader = open\n    return a\n\ndb.Setting = ce(1)\n",
    "open_with": HDR + "@constexpr\ndef ce(a):\n    with open('/etc/hostname') as fh:\n        n = len(fh.read())\n    return a + n\n\ndb.Setting = ce(1)\n",
    "eval_spaced": HDR + "@constexpr\ndef ce(a):\n    return eval ('a + 1')\n\ndb.Setting = ce(1)\n",
}


# programs that ordinary Python evaluation rejects must not compile to a value
INVALID = {
    "float_index": HDR + "@constexpr\ndef squares(n):\n    return [i * i for i in range(n)]\n\ndb.Setting = squares(6)[2]\ndb.Mode = squares(6)[7 / 2]\n",
    "index_out_of_range": HDR + "@constexpr\ndef squares(n):\n    return [i * i for i in range(n)]\n\ndb.Setting = squares(3)[5]\n",
    "raises": HDR + "@constexpr\ndef inv(n):\n    return 1 / n\n\ndb.Setting = inv(0)\n",
}

_patched = False


def _lift_child_timeout():
    """The 1 s limit of the constexpr child process is a timing matter (C10), not a value matter: under
    CPU load every evaluation would be inconclusive.  The harness lifts it to 60 s for this check."""
    global _patched
    if _patched:
        return
    import subprocess

    real = subprocess.Popen.communicate

    def communicate(self, input=None, timeout=None):
        if timeout is not None and timeout <= 1:
            timeout = 60
        return real(self, input=input, timeout=timeout)

    subprocess.Popen.communicate = communicate
    _patched = True


def task(spec):
    _lift_child_timeout()
    out = None
    for attempt in range(3):
        out = e1.task_src_vs_ic10(spec)
        if out["status"] == "compile_error" and "Timeout during evaluating constexpr" in (out.get("detail") or ""):
            out["status"] = "timeout"
            continue
        break
    if out["status"] in ("ok", "divergence"):
        cap = comp.compile_capture(spec["sources"], append_version=False, **spec.get("opts", {}))
        leaks = []
        if cap.ok:
            for n in spec["ce_names"]:
                if re.search(rf"(^|\n)\s*([A-Za-z0-9.]*\.)?{n}(end)?:", cap.code):
                    leaks.append(f"label of constexpr function {n} in output")
            for own in set(cap.owner):
                if own.split(".")[-1] in spec["ce_names"]:
                    leaks.append(f"instructions owned by constexpr function {own}")
        out["leaks"] = leaks
    return out


def run(tier: str) -> int:
    rep = harness.Report(PROP, tier, "translation_validation")
    rep.assumptions = ASSUMPTIONS
    known = harness.known_for(PROP)
    n = 120 if tier == "thorough" else 16
    items = []
    for i in range(n):
        seed = harness.seed() * 6007 + i
        srcs, names = gen_program(seed)
        for vec in ({}, {"inline_functions": False, "compact": True}) if (tier == "thorough" or i % 4 == 0) else ({},):
            items.append(dict(name=f"cx:{seed}", sources=srcs, tier=tier, opts=vec, ce_names=names, timeout=120))
    for name, srcs in base.repo_sources():
        s = srcs if isinstance(srcs, str) else "\n".join(srcs.values())
        if "@constexpr" in s:
            items.append(dict(name=name, sources=srcs, tier=tier, strict=False, opts={}, ce_names=re.findall(r"@constexpr\s+def (\w+)", s), timeout=120))
    for name, src, names in fixed_programs():
        items.append(dict(name=name, sources=src, tier=tier, opts={}, ce_names=names, timeout=120, must_compile=True))
    items.append(dict(name="witness:lib_internal_call", sources=WITNESS_LIB_INTERNAL, tier=tier, opts={}, ce_names=["lc"], timeout=120))
    results = harness.pmap(task, items, nworkers=6)
    seq_items = [dict(name=f"seq:{k}", sequence=v, tier=tier) for k, v in sequence_scenarios().items()]
    seq_results = harness.pmap(task_seq, seq_items, nworkers=3, placeholder=lambda it, st, d: [])
    for spec, rs in zip(seq_items, seq_results):
        for r in rs:
            items.append(dict(name=r["name"], sources=r["sources"], opts={}))
            results.append(r)
    programs = 0
    for spec, r in zip(items, results):
        if r["status"] == "harness_error":
            rep.harness_errors.append(f"{spec['name']}: {r.get('detail')}")
        if r["status"] in ("ok", "divergence"):
            programs += 1
        bad = []
        if r["status"] == "divergence":
            bad.append(r["divergences"][0]["detail"])
        bad += r.get("leaks", [])
        if r["status"] == "load_error":
            bad.append("unloadable: " + r.get("detail", ""))
        if (spec["name"].startswith("witness:") or spec.get("must_compile")) and r["status"] == "compile_error":
            bad.append("rejected: " + r.get("detail", ""))
        for b in bad:
            k = next((x for x in known if x.get("program") == spec["name"]), None)
            if k is not None:
                rep.known(f"{k['id']} {k['what']} [{spec['name']}]")
                continue
            path = e1.save_replay(PROP, dict(property=PROP, kind="src_vs_ic10", name=spec["name"], sources=spec["sources"], opts=spec.get("opts"), result=r))
            rep.violation(f"{spec['name']} {spec.get('opts')}: {b}", path)
    _lift_child_timeout()
    n_exact, exact_rows = exact_literal_obligations()
    for row in exact_rows[:5]:
        path = e1.save_replay(PROP, dict(property=PROP, kind="table_row", row=row))
        rep.violation(f"literal of an integer constexpr result: {row['detail']}", path)
    forb = {}
    for kname, src in FORBIDDEN.items():
        cap = comp.compile_capture(src, append_version=False)
        forb[kname] = "rejected" if not cap.ok else "compiled"
        if cap.ok:
            path = e1.save_replay(PROP, dict(property=PROP, kind="closed", name=f"forbidden:{kname}", sources=src, code=cap.code))
            rep.violation(f"constexpr body containing {kname} was not rejected", path)
    inval = {}
    for kname, src in INVALID.items():
        cap = comp.compile_capture(src, append_version=False)
        inval[kname] = "rejected" if not cap.ok else "compiled"
        if cap.ok:
            path = e1.save_replay(PROP, dict(property=PROP, kind="closed", name=f"invalid:{kname}", sources=src, code=cap.code))
            rep.violation(f"a constexpr use that raises under ordinary Python evaluation ({kname}) was replaced by a value", path)
    tot = base.solver_totals(results)
    rep.coverage = dict(
        invalid_programs=inval,
        programs=programs,
        disagreements_checked=sum(len(r.get("divergences", [])) + r.get("spurious", 0) for r in results),
        samples=[dict(name=items[0]["name"], source=items[0]["sources"])],
        by_status=base.count_by(results),
        forbidden_bodies=forb,
        exact_integer_literals_compared=n_exact,
        paths=tot["paths"], queries=tot,
        bounds=e1.bounds_for(tier).as_dict(),
        exhaustive=False,
    )
    return rep.finish()
