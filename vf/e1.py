"""E1 tasks: everything that is decided by running emitted IC10 on the symbolic machine."""
from __future__ import annotations

import ast
import hashlib
import json
import os
import time
import traceback
from pathlib import Path

from . import comp, equiv, ic10, monitors, sym
from .equiv import Bounds, IC10Side, SourceSide, check_equiv

VERIF = Path(__file__).resolve().parent.parent
REPLAYS = VERIF / "replays"


def bounds_for(tier: str) -> Bounds:
    return equiv.THOROUGH if tier == "thorough" else equiv.QUICK


def lenient_names(sources) -> frozenset:
    if isinstance(sources, str):
        sources = {"": sources}
    names = set()
    for s in sources.values():
        try:
            for n in ast.walk(ast.parse(s)):
                if isinstance(n, ast.Attribute):
                    names.add(n.attr)
        except SyntaxError:
            pass
    return frozenset(names)


def func_entries(cap: comp.Captured) -> dict:
    """text line index -> function name, for the first line of every function region."""
    out = {}
    prev = None
    for li, oi in enumerate(cap.line_obj):
        if oi is None:
            continue
        f = cap.owner[oi]
        if f != prev and f != "":
            out.setdefault(li, f)
        prev = f
    return out


def regions(cap: comp.Captured):
    """per text line: owner function ('' = main); blank lines inherit the previous owner."""
    out = []
    prev = ""
    for oi in cap.line_obj:
        if oi is not None:
            prev = cap.owner[oi]
        out.append(prev)
    return out


def shadow_names(cap: comp.Captured) -> dict:
    """text line index -> list of virtual register names per operand position (dest first)."""
    out = {}
    for li, oi in enumerate(cap.line_obj):
        if oi is None:
            continue
        op, vout, vops = cap.virt[oi]
        if op.endswith(":"):
            continue
        names = ([vout] if vout is not None else []) + list(vops)
        out[li] = names
    return out


def save_replay(prop: str, payload: dict) -> str:
    d = REPLAYS / prop
    d.mkdir(parents=True, exist_ok=True)
    blob = json.dumps(payload, sort_keys=True, default=str)
    h = hashlib.sha1(blob.encode()).hexdigest()[:12]
    p = d / f"{h}.json"
    p.write_text(json.dumps(payload, indent=1, default=str))
    return str(p)


Timeout = sym.TaskTimeout


def with_alarm(seconds, fn, *a, **kw):
    """Run fn under a cooperative wall-clock deadline (checked before every solver call and every
    machine step batch).  No signals: raising from a signal handler inside a z3 call corrupts z3's
    internal state (observed: workers deadlocked on a futex)."""
    sym.set_deadline(seconds)
    try:
        return fn(*a, **kw)
    finally:
        sym.set_deadline(None)


def compile_and_load(sources, opts, strict=True):
    """-> (cap, prog | None, problem | None)"""
    cap = comp.compile_capture(sources, **opts)
    if not cap.ok:
        return cap, None, ("compile_error", (cap.error or "").split("\n")[0][:160])
    try:
        prog = ic10.load(cap.code, lenient_names(sources) if not strict else frozenset())
    except ic10.LoadError as e:
        return cap, None, ("load_error", str(e))
    return cap, prog, None


def div_record(d, extra=None):
    r = dict(detail=d.detail, index=d.index, env=d.env, left=d.left_trace[:30], right=d.right_trace[:30])
    if extra:
        r.update(extra)
    return r


# ------------------------------------------------------------------------------------------------
# C01-style: source vs IC10 (one option vector)


def task_src_vs_ic10(spec: dict) -> dict:
    """spec: name, sources, opts, tier, strict, want: list of extra analyses ('c04','c06','c07')"""
    t0 = time.time()
    out = dict(name=spec["name"], status="ok", features=spec.get("features", []), opts=spec.get("opts", {}))
    b = bounds_for(spec.get("tier", "quick"))
    try:
        opts = dict(append_version=False)
        opts.update(spec.get("opts", {}))
        cap, prog, problem = compile_and_load(spec["sources"], opts, spec.get("strict", True))
        out["compile_s"] = round(cap.wall_s, 3)
        if cap.exc:
            out["exception"] = cap.exc
        if problem:
            out["status"], out["detail"] = problem
            out["code"] = cap.code
            return out
        out["lines"] = prog.n
        res = with_alarm(spec.get("timeout", 120), check_equiv, SourceSide(spec["sources"]), IC10Side(prog, cap.main_end), b)
        _fill(out, res)
        if res.divergences:
            out["status"] = "divergence"
            out["divergences"] = [div_record(d) for d in res.divergences[:3]]
            out["code"] = cap.code
    except Timeout:
        out["status"] = "timeout"
    except sym.Unsupported as e:
        out["status"] = "unsupported"
        out["detail"] = str(e)
    except Exception as e:  # harness problem: reported, never a violation
        if "Timeout" in f"{type(e).__name__}{e}":
            out["status"] = "timeout"  # SIGALRM surfaced inside a z3 callback
            return out
        out["status"] = "harness_error"
        out["detail"] = f"{type(e).__name__}: {e}"
        out["tb"] = traceback.format_exc()[-1500:]
    out["wall_s"] = round(time.time() - t0, 3)
    return out


def _fill(out, res):
    out["paths"] = res.paths
    out["multi_path"] = res.multi_path
    out["spurious"] = res.spurious
    out["inconclusive"] = res.inconclusive
    out["aborted"] = res.aborted
    out["bound_paths"] = res.bound_paths
    out["truncated"] = res.truncated
    out["effects_compared"] = res.effects_compared
    out["max_trace"] = res.max_trace
    out["stats"] = res.stats.as_dict()
    if res.unsupported:
        out["status"] = "unsupported"
        out["detail"] = res.unsupported


# ------------------------------------------------------------------------------------------------
# IC10 vs IC10 (two option vectors / two sources)


def task_ic10_vs_ic10(spec: dict) -> dict:
    """spec: name, sources (left), sources2 (optional right), opts, opts2, tier"""
    t0 = time.time()
    out = dict(name=spec["name"], status="ok", features=spec.get("features", []), opts=spec.get("opts", {}), opts2=spec.get("opts2", {}))
    b = bounds_for(spec.get("tier", "quick"))
    try:
        o1 = dict(append_version=False)
        o1.update(spec.get("opts", {}))
        o2 = dict(append_version=False)
        o2.update(spec.get("opts2", {}))
        cap1, p1, pr1 = compile_and_load(spec["sources"], o1, spec.get("strict", True))
        cap2, p2, pr2 = compile_and_load(spec.get("sources2", spec["sources"]), o2, spec.get("strict", True))
        if pr1 or pr2:
            # both must agree on being rejected; a one-sided rejection is reported by the caller
            out["status"] = "compile_mismatch" if bool(pr1) != bool(pr2) else (pr1[0])
            out["detail"] = f"left={pr1} right={pr2}"
            out["code"] = cap1.code if not pr1 else cap2.code
            return out
        out["lines"] = (p1.n, p2.n)
        res = with_alarm(spec.get("timeout", 120), check_equiv, IC10Side(p1, cap1.main_end), IC10Side(p2, cap2.main_end), b)
        _fill(out, res)
        if res.divergences:
            out["status"] = "divergence"
            out["divergences"] = [div_record(d) for d in res.divergences[:3]]
            out["code"] = cap1.code
            out["code2"] = cap2.code
    except Timeout:
        out["status"] = "timeout"
    except sym.Unsupported as e:
        out["status"] = "unsupported"
        out["detail"] = str(e)
    except Exception as e:
        if "Timeout" in f"{type(e).__name__}{e}":
            out["status"] = "timeout"
            return out
        out["status"] = "harness_error"
        out["detail"] = f"{type(e).__name__}: {e}"
        out["tb"] = traceback.format_exc()[-1500:]
    out["wall_s"] = round(time.time() - t0, 3)
    return out


# ------------------------------------------------------------------------------------------------
# single-machine exploration with monitors (C04 lock-step, C06 shadow stack, C07 regions)


class _Null:
    """Left side that produces nothing: used to explore one IC10 program alone."""

    name = "null"

    def run(self, ctx, b, max_effects=None):
        return equiv.SideResult([], "bound_effects")


def explore_ic10(prog, cap, b: Bounds, *, shadow=False, calls=False, push_pop=False, halt_on_fallthrough=True):
    """Run the program on all paths within bounds; collect monitor events, each confirmed by a
    concrete replay under a model of its path condition.  -> (events, stats dict)"""
    sh = shadow_names(cap) if shadow else None
    fe = func_entries(cap)
    regs = regions(cap)
    mon_factory = (lambda: monitors.CallMonitor(fe, cap.func_meta, push_pop)) if calls else None
    side = IC10Side(prog, cap.main_end, shadow=sh, monitor_factory=mon_factory, halt_on_fallthrough=halt_on_fallthrough)
    ctx = sym.Ctx(timeout_ms=b.timeout_ms, max_paths=b.paths)
    confirmed = []
    seen = set()
    stats = dict(paths=0, bound_paths=0, aborted=0, spurious=0, reads_checked=0, calls=0, returns=0, max_depth=0, steps=0)
    called_all: set = set()
    while ctx.work and stats["paths"] < b.paths:
        prefix = ctx.work.pop()
        ctx.begin_run(prefix)
        stats["paths"] += 1
        try:
            mon = mon_factory() if mon_factory else None
            m = ic10.Machine(prog, ctx, main_end=cap.main_end, monitor=mon, shadow=sh)
            m.halt_on_fallthrough = halt_on_fallthrough
            m.regions, m.entries = regs, set(fe)
            st = m.run(max_steps=b.steps, max_effects=b.effects)
            stats["steps"] += m.steps
            called_all.update(m.called)
            if "bound" in st:
                stats["bound_paths"] += 1
            evs = list(m.events) + (mon.events if mon else [])
            if mon:
                stats["calls"] += mon.calls
                stats["returns"] += mon.returns
                stats["max_depth"] = max(stats["max_depth"], mon.max_depth)
            for e in evs:
                key = (e[0], e[1])
                if key in seen:
                    continue
                seen.add(key)
                extra = e[-1] if (e[0] == "clobber" and e[-1] is not None) else None
                if extra is not None:
                    model = ctx.solver.model() if ctx._check(extra) == "sat" else None
                else:
                    model = ctx.model()
                env = equiv.ModelEnv(model)
                cctx = sym.Ctx(concrete_env=env)
                cctx.begin_run([])
                cmon = mon_factory() if mon_factory else None
                cm = ic10.Machine(prog, cctx, main_end=cap.main_end, monitor=cmon, shadow=sh)
                cm.halt_on_fallthrough = halt_on_fallthrough
                cm.regions, cm.entries = regs, set(fe)
                try:
                    cm.run(max_steps=b.steps, max_effects=b.effects)
                except (sym.PathAbort, sym.BoundHit, sym.Unsupported):
                    pass
                cctx.end_run()
                cevs = list(cm.events) + (cmon.events if cmon else [])
                hit = [c for c in cevs if (c[0], c[1]) == key]
                if hit:
                    confirmed.append(dict(kind=e[0], line=e[1], detail=[str(x) for x in hit[0][2:] if x is not None][:6], env=env.dump(),
                                          trace=[x.show() for x in cm.trace[:20]]))
                else:
                    stats["spurious"] += 1
        except sym.PathAbort:
            stats["aborted"] += 1
        except sym.BoundHit:
            stats["bound_paths"] += 1
        finally:
            ctx.end_run()
    stats["solver"] = ctx.stats.as_dict()
    stats["inconclusive"] = ctx.inconclusive
    stats["truncated"] = bool(ctx.work)
    stats["called_entries"] = sorted(called_all)
    stats["function_entries"] = {str(k): v for k, v in fe.items()}
    return confirmed, stats


def task_monitor(spec: dict) -> dict:
    """spec: name, sources, opts, tier, shadow(bool), calls(bool)"""
    t0 = time.time()
    out = dict(name=spec["name"], status="ok", features=spec.get("features", []), opts=spec.get("opts", {}))
    b = bounds_for(spec.get("tier", "quick"))
    try:
        opts = dict(append_version=False)
        opts.update(spec.get("opts", {}))
        cap, prog, problem = compile_and_load(spec["sources"], opts, spec.get("strict", True))
        if problem:
            out["status"], out["detail"] = problem
            out["code"] = cap.code
            return out
        out["lines"] = prog.n
        out["main_end"] = cap.main_end
        if not cap.line_obj:
            out["status"] = "unsupported"
            out["detail"] = "could not align text with instruction list"
            return out
        evs, stats = with_alarm(
            spec.get("timeout", 120), explore_ic10, prog, cap, b,
            shadow=spec.get("shadow", False), calls=spec.get("calls", False),
            push_pop=bool(cap.effective.get("use_push_pop_functions", opts.get("use_push_pop_functions"))), halt_on_fallthrough=spec.get("halt_on_fallthrough", True),
        )
        out["stats"] = stats
        out["events"] = evs
        out["returned_registers"] = cap.returned_registers
        out["code"] = cap.code if evs else None
        if evs:
            out["status"] = "events"
    except Timeout:
        out["status"] = "timeout"
    except sym.Unsupported as e:
        out["status"] = "unsupported"
        out["detail"] = str(e)
    except Exception as e:
        if "Timeout" in f"{type(e).__name__}{e}":
            out["status"] = "timeout"
            return out
        out["status"] = "harness_error"
        out["detail"] = f"{type(e).__name__}: {e}"
        out["tb"] = traceback.format_exc()[-1500:]
    out["wall_s"] = round(time.time() - t0, 3)
    return out


TASKS = {
    "src_vs_ic10": task_src_vs_ic10,
    "ic10_vs_ic10": task_ic10_vs_ic10,
    "monitor": task_monitor,
}


def run_task(item):
    kind, spec = item
    return TASKS[kind](spec)


# ------------------------------------------------------------------------------------------------
# C02: all option vectors of one program


def _canon_key(prog):
    return hashlib.sha1(repr(ic10.canonical(prog)).encode()).hexdigest()


def strip_all_comments(code: str) -> list[str]:
    return [ic10.strip_comment(l).rstrip() for l in code.split("\n")]


def pragma_source(src: str, vec: dict) -> str:
    lines = []
    for k, v in vec.items():
        name = k.replace("_", "-") if (hash(k) & 1) else k
        lines.append(f"# pytrapic: {'' if v else 'no-'}{name}")
    return "\n".join(lines) + "\n" + src


def task_vectors(spec: dict) -> dict:
    """spec: name, sources, tier, vectors (list of dicts over SEMANTIC_OPTIONS), base (dict)"""
    t0 = time.time()
    out = dict(name=spec["name"], status="ok", features=spec.get("features", []), problems=[], groups=0,
               compiled=0, rejected=0, equiv_runs=0, paths=0, effects_compared=0, spurious=0, inconclusive=0,
               textual_checked=0, pragma_checked=0, stats=sym.Stats().as_dict())
    b = bounds_for(spec.get("tier", "quick"))
    src = spec["sources"]
    try:
        base_opts = dict(append_version=False)
        base_opts.update(spec.get("base", {}))
        cap0, p0, pr0 = compile_and_load(src, base_opts)
        if pr0:
            out["status"] = pr0[0]
            out["detail"] = pr0[1]
            return out
        groups = {}
        for vec in spec["vectors"]:
            o = dict(append_version=False)
            o.update(vec)
            cap, prog, pr = compile_and_load(src, o)
            if pr:
                out["rejected"] += 1
                if pr[0] == "load_error" or "registers" not in (pr[1] or ""):
                    out["problems"].append(dict(kind=pr[0], vec=vec, detail=pr[1]))
                continue
            out["compiled"] += 1
            groups.setdefault(_canon_key(prog), (vec, cap, prog))
        out["groups"] = len(groups)
        k0 = _canon_key(p0)
        tot = sym.Stats()
        for key, (vec, cap, prog) in groups.items():
            if key == k0:
                continue
            res = with_alarm(spec.get("timeout", 90), check_equiv, IC10Side(p0, cap0.main_end), IC10Side(prog, cap.main_end), b)
            out["equiv_runs"] += 1
            out["paths"] += res.paths
            out["effects_compared"] += res.effects_compared
            out["spurious"] += res.spurious
            out["inconclusive"] += res.inconclusive
            tot.add(res.stats)
            if res.unsupported:
                out["problems"].append(dict(kind="unsupported", vec=vec, detail=res.unsupported))
            for d in res.divergences[:1]:
                out["problems"].append(dict(kind="divergence", vec=vec, detail=d.detail, env=d.env, left=d.left_trace[:20],
                                            right=d.right_trace[:20], code_base=cap0.code, code_vec=cap.code))
        out["stats"] = tot.as_dict()
        # comment / version options: instruction text must not change
        for tv in spec.get("textual", []):
            for sv in spec.get("textual_on", [{}]):
                o = dict(sv)
                o.update(tv)
                capt = comp.compile_capture(src, **o)
                o2 = dict(sv)
                o2.update(original_code_as_comment=False, generated_comments=False, append_version=False)
                capb = comp.compile_capture(src, **o2)
                out["textual_checked"] += 1
                if capt.ok != capb.ok:
                    out["problems"].append(dict(kind="textual_compile_mismatch", vec=o, detail=str(capt.error or capb.error)[:200]))
                elif capt.ok and strip_all_comments(capt.code) != strip_all_comments(capb.code):
                    # unused labels may survive when comments are attached; layout only -> compare canonical forms
                    try:
                        same = ic10.canonical(ic10.load(capt.code)) == ic10.canonical(ic10.load(capb.code))
                        why = "instruction sequence changes with a comment/version option"
                    except ic10.LoadError as e:
                        same, why = False, f"unloadable with comment options: {e}"
                    if not same:
                        out["problems"].append(dict(kind="textual_difference", vec=o, code_base=capb.code, code_vec=capt.code, detail=why))
        # pragma route: the same vector written as '# pytrapic:' lines
        for vec in spec.get("pragma", []):
            o = dict(append_version=False)
            o.update(vec)
            a = comp.compile_capture(src, **o)
            bsrc = pragma_source(src, vec)
            bb = comp.compile_capture(bsrc, append_version=False)
            out["pragma_checked"] += 1
            ca = a.code if a.ok else "ERROR"
            cb = bb.code if bb.ok else "ERROR"
            if (ca == "ERROR") != (cb == "ERROR") or (a.ok and bb.ok and ca != cb):
                out["problems"].append(dict(kind="pragma_difference", vec=vec, code_base=ca, code_vec=cb,
                                            detail="options given by '# pytrapic:' lines compile differently from the API"))
    except Timeout:
        out["status"] = "timeout"
    except sym.Unsupported as e:
        out["status"] = "unsupported"
        out["detail"] = str(e)
    except Exception as e:
        if "Timeout" in f"{type(e).__name__}{e}":
            out["status"] = "timeout"
            return out
        out["status"] = "harness_error"
        out["detail"] = f"{type(e).__name__}: {e}"
        out["tb"] = traceback.format_exc()[-1500:]
    out["wall_s"] = round(time.time() - t0, 3)
    return out


TASKS["vectors"] = task_vectors
