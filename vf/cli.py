"""./check <ID> [--tier quick|thorough] [--replay path]"""
from __future__ import annotations

import argparse
import importlib
import os
import sys
import traceback

from . import harness


def main(argv=None) -> int:
    ap = argparse.ArgumentParser()
    ap.add_argument("prop")
    ap.add_argument("--tier", default=os.environ.get("VERIF_TIER", "quick"), choices=["quick", "thorough"])
    ap.add_argument("--replay")
    a = ap.parse_args(argv)
    prop = a.prop.upper()
    os.environ["VERIF_TIER"] = a.tier  # the parallel-map wall budget depends on the tier
    try:
        mod = importlib.import_module(f"vf.props.{prop.lower()}")
    except ModuleNotFoundError:
        print(f"no check for {prop}", file=sys.stderr)
        return harness.HARNESS_ERROR
    try:
        if a.replay:
            from . import replay

            return replay.run(prop, a.replay)
        return mod.run(a.tier)
    except Exception:
        traceback.print_exc()
        return harness.HARNESS_ERROR


if __name__ == "__main__":
    sys.exit(main())
