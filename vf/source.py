"""Reference interpreter of the documented PyTrapIC dialect (source side of E1).

Python control flow and scoping, IC10 arithmetic (vf.sym), device I/O as environment reads and
effects (same environment model as the IC10 machine).  Written against README.md, the examples
and the Python language reference; shares no code with the compiler.  Structure/enum tables come
from vf.tables (static extraction).  Anything outside the supported subset raises Unsupported.
"""
from __future__ import annotations

import ast
import math

from . import ic10, sym, tables
from .ic10 import Effect, Machine, Program, hash_signed, str_pack
from .sym import BoundHit, PathAbort, Unsupported, is_conc

MATH_FUNCS = {"sin", "cos", "tan", "asin", "acos", "atan", "atan2", "sqrt", "log", "exp"}
CONSTANTS = {"pi": math.pi, "tau": 2 * math.pi, "rgas": 8.31446261815324}
BINOPS = {
    ast.Add: "add", ast.Sub: "sub", ast.Mult: "mul", ast.Div: "div", ast.Mod: "mod", ast.Pow: "pow",
    ast.BitXor: "xor", ast.BitAnd: "and", ast.RShift: "srl", ast.LShift: "sll",
}
CMPOPS = {ast.Eq: "eq", ast.NotEq: "ne", ast.Lt: "lt", ast.LtE: "le", ast.Gt: "gt", ast.GtE: "ge"}
PINS = {f"d{i}": float(i) for i in range(6)}
PINS["db"] = 6.0


class _Return(Exception):
    def __init__(self, v):
        self.v = v


class _Break(Exception):
    pass


class _Continue(Exception):
    pass


class EndOfProgram(Exception):
    pass


# ---- compile-time objects -----------------------------------------------------------------------


class Dev:
    """A single device: pin (d0..db) or reference id; optional structure class; optional batch
    form (prefab hash + name hash + batch mode) when obtained as Xs[...].Average."""

    def __init__(self, kind, ident, cls=None, batch=None):
        self.kind = kind  # 'pin' | 'ref' | 'batch'
        self.ident = ident
        self.cls = cls
        self.batch = batch  # (prefab_hash, name_hash|None, mode) when kind == 'batch'


class Batch:
    def __init__(self, prefab, name=None, cls=None, single_cls=None):
        self.prefab = prefab
        self.name = name
        self.cls = cls  # plural class name (e.g. _Furnaces) or None for generic
        self.single_cls = single_cls


class LogicAcc:
    """Xs.On  (batch logic accessor waiting for .Maximum etc. or for a store)"""

    def __init__(self, batch, lt):
        self.batch = batch
        self.lt = lt


class Slot:
    def __init__(self, owner, index, slotcls=None):
        self.owner = owner  # Dev or Batch
        self.index = index
        self.slotcls = slotcls


class SlotAcc:
    """Xs.slot0.Occupied (batch slot accessor waiting for batch mode / store)"""

    def __init__(self, slot, st):
        self.slot = slot
        self.st = st


class StackObj:
    def __init__(self, dev):
        self.dev = dev  # Dev with kind pin/ref ; pin 6 = own stack


class EnumCls:
    def __init__(self, name, members):
        self.name = name
        self.members = members


class StructCls:
    def __init__(self, name):
        self.name = name


class Func:
    def __init__(self, node, module):
        self.node = node
        self.module = module
        self.is_constexpr = any(isinstance(d, ast.Name) and d.id in ("constexpr",) for d in node.decorator_list)


class Module:
    def __init__(self, name, tree, src):
        self.name = name
        self.tree = tree
        self.src = src
        self.globals: dict = {}


class Frame:
    def __init__(self, module, func=None):
        self.module = module
        self.func = func
        self.locals: dict = {}
        self.global_names: set = set()
        self.local_names: set = set()


def _assigned_names(fnode):
    names = set()
    for n in ast.walk(fnode):
        if isinstance(n, ast.Name) and isinstance(n.ctx, ast.Store):
            names.add(n.id)
        elif isinstance(n, ast.arg):
            names.add(n.arg)
    return names


class Interp:
    def __init__(self, ctx: sym.Ctx, sources, max_steps=4000, max_effects=12):
        """sources: str or dict {'' : main, 'mod': src}"""
        if isinstance(sources, str):
            sources = {"": sources}
        self.ctx = ctx
        self.sources = sources
        self.core = Machine(Program(text=""), ctx)  # registers unused; memory, trace, epoch shared
        self.max_steps = max_steps
        self.max_effects = max_effects
        self.steps = 0
        self.modules: dict[str, Module] = {}
        self.status = None
        self.enum_tbl = tables.enums()
        self.struct_cls, self.singles = tables.structures()
        self.call_depth = 0

    # -- public ----------------------------------------------------------------------------------
    @property
    def trace(self):
        return self.core.trace

    def run(self):
        """Execute library modules then the main module.  Sets status: 'end', 'bound_steps',
        'bound_effects', 'hcf'."""
        try:
            main = Module("", ast.parse(self.sources[""]), self.sources[""])
            self.modules[""] = main
            # library modules run first, in the order of the import statements of the main file
            order = []
            for st in main.tree.body:
                if isinstance(st, ast.ImportFrom) and st.module == "library":
                    for al in st.names:
                        order.append((al.name, al.asname or al.name))
            for name, alias in order:
                if name not in self.sources:
                    raise Unsupported(f"library module {name} not provided")
                m = Module(alias, ast.parse(self.sources[name]), self.sources[name])
                self.modules[alias] = m
                main.globals[alias] = m
            for name, alias in order:
                self.exec_block(self.modules[alias].tree.body, Frame(self.modules[alias]))
            self.exec_block(main.tree.body, Frame(main))
            self.status = "end"
        except BoundHit as e:
            self.status = "bound_effects" if "effects" in str(e) else "bound_steps"
        except EndOfProgram:
            self.status = "hcf"
        return self.status

    # -- helpers ---------------------------------------------------------------------------------
    def tick(self):
        self.steps += 1
        if self.steps % 256 == 0:
            sym.check_deadline()
        if self.steps > self.max_steps:
            raise BoundHit("steps")

    def effect(self, kind, *args):
        self.core.effect(kind, *args)
        if len(self.core.trace) >= self.max_effects:
            raise BoundHit("effects")

    def read(self, kind, *args):
        return self.core.read(kind, *args)

    def num(self, v, node=None):
        if isinstance(v, bool):
            return 1.0 if v else 0.0
        if isinstance(v, (int, float)):
            return float(v)
        if is_conc(v) or hasattr(v, "sort"):
            return v
        raise Unsupported(f"expected a number, got {type(v).__name__} at line {getattr(node, 'lineno', '?')}")

    def lookup(self, name, fr: Frame, node=None):
        if fr.func is not None and name in fr.local_names and name not in fr.global_names:
            if name in fr.locals:
                return fr.locals[name]
            raise PathAbort(f"unbound local {name}")
        g = fr.module.globals
        if name in g:
            return g[name]
        return self.builtin(name, node)

    def store(self, name, v, fr: Frame):
        if fr.func is not None and name not in fr.global_names:
            fr.locals[name] = v
        else:
            fr.module.globals[name] = v

    def builtin(self, name, node=None):
        if name in PINS:
            return Dev("pin", PINS[name])
        if name == "stack":
            return StackObj(Dev("pin", 6.0))
        if name in CONSTANTS:
            return CONSTANTS[name]
        if name in self.enum_tbl:
            return EnumCls(name, self.enum_tbl[name])
        if name in self.singles:
            pl = self.singles[name]
            info = self.struct_cls[pl]
            return Batch(float(hash_signed(info["prefab"])), None, pl)
        if name in self.struct_cls and self.struct_cls[name]["prefab"] and not name.startswith("_"):
            return StructCls(name)
        if name in ("Device", "_Device", "Devices", "_Devices", "Stack", "HASH", "STR", "range", "constexpr"):
            return ("builtin", name)
        if name in MATH_FUNCS:
            return ("math", name)
        if name in tables.module_constants():
            return float(tables.module_constants()[name])
        intr = name[:-1] if name.endswith("_") and name[:-1] in ic10.SIG else name
        if intr in ic10.SIG:
            return ("intrinsic", intr)
        raise Unsupported(f"unknown name {name} at line {getattr(node, 'lineno', '?')}")

    # -- statements ------------------------------------------------------------------------------
    def exec_block(self, body, fr):
        for st in body:
            self.exec_stmt(st, fr)

    def exec_stmt(self, st, fr: Frame):
        self.tick()
        m = getattr(self, "st_" + type(st).__name__, None)
        if m is None:
            raise Unsupported(f"statement {type(st).__name__} at line {st.lineno}")
        m(st, fr)

    def st_Pass(self, st, fr):
        pass

    def st_Import(self, st, fr):
        pass

    def st_ImportFrom(self, st, fr):
        pass

    def st_Global(self, st, fr):
        fr.global_names.update(st.names)

    def st_FunctionDef(self, st, fr):
        if fr.func is not None:
            raise Unsupported("nested function definition")
        for d in st.decorator_list:
            if not (isinstance(d, ast.Name) and d.id == "constexpr"):
                raise Unsupported("decorator")
        fr.module.globals[st.name] = Func(st, fr.module)

    def st_Expr(self, st, fr):
        if isinstance(st.value, ast.Constant):
            return  # docstring / bare constant
        self.eval(st.value, fr)

    def st_Assign(self, st, fr):
        if len(st.targets) != 1:
            raise Unsupported("multiple assignment targets")
        t = st.targets[0]
        v = self.eval(st.value, fr)
        self.assign(t, v, fr)

    def assign(self, t, v, fr):
        if isinstance(t, ast.Name):
            self.store(t.id, v, fr)
        elif isinstance(t, ast.Attribute):
            obj = self.eval(t.value, fr)
            self.store_attr(obj, t.attr, self.num(v, t), t)
        elif isinstance(t, ast.Subscript):
            obj = self.eval(t.value, fr)
            idx = self.eval(t.slice, fr)
            if not isinstance(obj, StackObj):
                raise Unsupported("subscript store on non-stack")
            self.stack_store(obj, self.num(idx, t), self.num(v, t))
        else:
            raise Unsupported(f"assignment target {type(t).__name__}")

    def st_AugAssign(self, st, fr):
        if not isinstance(st.target, ast.Name):
            raise Unsupported("augmented assignment to non-name")
        opn = BINOPS.get(type(st.op))
        if opn is None:
            raise Unsupported("augassign operator")
        cur = self.num(self.lookup(st.target.id, fr, st), st)
        rhs = self.num(self.eval(st.value, fr), st)
        self.store(st.target.id, sym.op(opn, cur, rhs), fr)

    def st_Return(self, st, fr):
        v = None
        if st.value is not None:
            v = self.eval(st.value, fr)
        raise _Return(v)

    def st_Break(self, st, fr):
        raise _Break()

    def st_Continue(self, st, fr):
        raise _Continue()

    def test(self, node, fr) -> bool:
        """Truth of an if/while test: comparison by IC10 comparison, anything else by != 0."""
        if isinstance(node, ast.UnaryOp) and isinstance(node.op, ast.Not):
            return not self.test(node.operand, fr)
        if isinstance(node, ast.Compare):
            c = self.compare(node, fr)
            return self.ctx.decide(c)
        v = self.eval(node, fr)
        if isinstance(v, str):
            return bool(v)
        return self.ctx.decide(sym.truthy(self.num(v, node)))

    def st_If(self, st, fr):
        if self.test(st.test, fr):
            self.exec_block(st.body, fr)
        else:
            self.exec_block(st.orelse, fr)

    def st_While(self, st, fr):
        if st.orelse:
            raise Unsupported("while-else")
        while True:
            self.tick()
            if not self.test(st.test, fr):
                break
            try:
                self.exec_block(st.body, fr)
            except _Break:
                break
            except _Continue:
                continue

    def st_For(self, st, fr):
        if st.orelse:
            raise Unsupported("for-else")
        if not isinstance(st.target, ast.Name):
            raise Unsupported("for target")
        it = st.iter
        if isinstance(it, ast.Call) and isinstance(it.func, ast.Name) and it.func.id == "range":
            args = [self.num(self.eval(a, fr), st) for a in it.args]
            if len(args) == 1:
                start, end, step = 0.0, args[0], 1.0
            elif len(args) == 2:
                start, end, step = args[0], args[1], 1.0
            elif len(args) == 3:
                start, end, step = args
            else:
                raise Unsupported("range arity")
            if not is_conc(step):
                raise Unsupported("symbolic range step (sign unknown at compile time)")
            if step == 0:
                raise PathAbort("range step 0")
            i = start
            while True:
                self.tick()
                c = sym.cond("lt" if step > 0 else "gt", i, end)
                if not self.ctx.decide(c):
                    break
                self.store(st.target.id, i, fr)
                try:
                    self.exec_block(st.body, fr)
                except _Break:
                    break
                except _Continue:
                    pass
                i = sym.op("add", i, step)
            return
        seq = self.eval(it, fr)
        if not isinstance(seq, list):
            raise Unsupported("for over non-list")
        for v in seq:
            self.tick()
            self.store(st.target.id, v, fr)
            try:
                self.exec_block(st.body, fr)
            except _Break:
                break
            except _Continue:
                continue

    # -- expressions -----------------------------------------------------------------------------
    def eval(self, e, fr: Frame):
        m = getattr(self, "ex_" + type(e).__name__, None)
        if m is None:
            raise Unsupported(f"expression {type(e).__name__} at line {e.lineno}")
        return m(e, fr)

    def ex_Constant(self, e, fr):
        v = e.value
        if isinstance(v, bool):
            return 1.0 if v else 0.0
        if isinstance(v, (int, float)):
            return float(v)
        if isinstance(v, str):
            return v
        if v is None:
            return None
        raise Unsupported("constant type")

    def ex_Name(self, e, fr):
        if e.id == "__name__":
            return "__main__" if fr.module.name == "" else fr.module.name
        return self.lookup(e.id, fr, e)

    def ex_List(self, e, fr):
        return [self.num(self.eval(x, fr), e) for x in e.elts]

    ex_Tuple = ex_List

    def ex_UnaryOp(self, e, fr):
        if isinstance(e.op, ast.Not):
            v = self.num(self.eval(e.operand, fr), e)
            return sym.b2v(sym.cond("eq", v, 0.0))
        v = self.num(self.eval(e.operand, fr), e)
        if isinstance(e.op, ast.USub):
            return sym.op("sub", 0.0, v)
        if isinstance(e.op, ast.UAdd):
            return v
        if isinstance(e.op, ast.Invert):
            return sym.op("not", v)
        raise Unsupported("unary op")

    def ex_BinOp(self, e, fr):
        opn = BINOPS.get(type(e.op))
        if opn is None:
            raise Unsupported(f"binary operator {type(e.op).__name__}")
        a = self.num(self.eval(e.left, fr), e)
        b = self.num(self.eval(e.right, fr), e)
        return sym.op(opn, a, b)

    def ex_BoolOp(self, e, fr):
        # eager, IC10 'and' / 'or' (README: "and, or" are mapped to the instructions)
        opn = "and" if isinstance(e.op, ast.And) else "or"
        vals = [self.num(self.eval(x, fr), e) for x in e.values]
        # a and b and c == a and (b and c)
        acc = vals[-1]
        for v in reversed(vals[:-1]):
            acc = sym.logic(opn, v, acc)
        return acc

    def compare(self, e, fr):
        if len(e.ops) != 1:
            # a < b < c: every operand evaluated once (operands are effect-free reads here), conjunction
            vals = [self.num(self.eval(x, fr), e) for x in [e.left] + list(e.comparators)]
            acc = None
            for op_, a_, b_ in zip(e.ops, vals, vals[1:]):
                on = CMPOPS.get(type(op_))
                if on is None:
                    raise Unsupported("comparison operator")
                c_ = sym.cond(on, a_, b_)
                if acc is None:
                    acc = c_
                elif isinstance(acc, bool) and isinstance(c_, bool):
                    acc = acc and c_
                else:
                    import z3 as _z3

                    acc = _z3.And(_z3.BoolVal(acc) if isinstance(acc, bool) else acc, _z3.BoolVal(c_) if isinstance(c_, bool) else c_)
            return acc
        opn = CMPOPS.get(type(e.ops[0]))
        if opn is None:
            raise Unsupported("comparison operator")
        a = self.eval(e.left, fr)
        b = self.eval(e.comparators[0], fr)
        if isinstance(a, str) or isinstance(b, str):
            if opn == "eq":
                return a == b
            if opn == "ne":
                return a != b
            raise Unsupported("string ordering")
        return sym.cond(opn, self.num(a, e), self.num(b, e))

    def ex_Compare(self, e, fr):
        return sym.b2v(self.compare(e, fr))

    def ex_IfExp(self, e, fr):
        # select: all three operands are evaluated
        t = self.eval(e.test, fr)
        a = self.num(self.eval(e.body, fr), e)
        b = self.num(self.eval(e.orelse, fr), e)
        return sym.select(sym.truthy(self.num(t, e)), a, b)

    def ex_Subscript(self, e, fr):
        obj = self.eval(e.value, fr)
        idx = self.eval(e.slice, fr)
        if isinstance(obj, StackObj):
            return self.stack_load(obj, self.num(idx, e))
        if isinstance(obj, Batch):
            if isinstance(idx, str):
                nm = float(hash_signed(idx))
            else:
                nm = self.num(idx, e)
            return Batch(obj.prefab, nm, obj.cls)
        if isinstance(obj, list):
            idx = self.num(idx, e)
            n = len(obj)
            if is_conc(idx):
                if idx != math.floor(idx) or not (0 <= idx < n):
                    raise PathAbort("constant-list index out of range")
                return obj[int(idx)]
            if n == 1:
                # documented: a one-element list with a dynamic index assumes index 0
                self.ctx.assume(sym.to_z3(idx) == 0)
                return obj[0]
            for k in range(n):
                if self.ctx.decide(sym.to_z3(idx) == float(k)):
                    self.bind(idx, float(k))
                    return obj[k]
            raise PathAbort("constant-list index out of range")
        raise Unsupported(f"subscript on {type(obj).__name__}")

    def bind(self, term, value):
        """Remember that an environment read is known to equal a constant on this path, so that the
        same read on the IC10 side folds to the constant (jump tables, dynamic addresses)."""
        if not is_conc(term):
            self.ctx.bindings[term.get_id()] = (term, value)

    def ex_Attribute(self, e, fr):
        obj = self.eval(e.value, fr)
        return self.load_attr(obj, e.attr, e)

    # -- attribute semantics ---------------------------------------------------------------------
    def _lt(self, name, node):
        t = self.enum_tbl["LogicType"]
        if name not in t:
            return float(hash_signed("lenient:" + name))
        return float(t[name])

    def _batchmode(self, name):
        return float(self.enum_tbl["LogicBatchMethod"][name])

    def load_attr(self, obj, attr, node):
        bm = self.enum_tbl["LogicBatchMethod"]
        if isinstance(obj, Module):
            if attr in obj.globals:
                return obj.globals[attr]
            raise PathAbort(f"module has no attribute {attr}")
        if isinstance(obj, EnumCls):
            if attr not in obj.members:
                raise Unsupported(f"enum member {obj.name}.{attr}")
            return float(obj.members[attr])
        if isinstance(obj, Dev):
            if obj.kind == "batch":
                d = self.prop(obj.cls, attr)
                if d[0] == "logic":
                    prefab, name, mode = obj.batch
                    return self.batch_load(prefab, name, self._lt(d[1], node), mode)
                raise Unsupported("slot of batch-mode device")
            d = self.prop(obj.cls, attr)
            if d[0] == "logic":
                return self.read("l." + obj.kind, obj.ident, self._lt(d[1], node))
            if d[0] == "slot":
                return Slot(obj, float(d[1]), d[2])
            raise Unsupported(f"attribute kind {d[0]}")
        if isinstance(obj, Batch):
            if attr in bm:
                single = self._single_of(obj.cls)
                return Dev("batch", None, single, (obj.prefab, obj.name, self._batchmode(attr)))
            d = self.prop(obj.cls, attr)
            if d[0] == "logic":
                return LogicAcc(obj, self._lt(d[1], node))
            if d[0] == "slot":
                return Slot(obj, float(d[1]), d[2])
            raise Unsupported(f"attribute kind {d[0]}")
        if isinstance(obj, LogicAcc):
            if attr in bm:
                return self.batch_load(obj.batch.prefab, obj.batch.name, obj.lt, self._batchmode(attr))
            raise Unsupported("batch logic accessor needs a batch mode")
        if isinstance(obj, Slot):
            st = self.enum_tbl["LogicSlotType"]
            if attr not in st:
                raise Unsupported(f"slot logic type {attr}")
            stv = float(st[attr])
            if isinstance(obj.owner, Dev):
                if obj.owner.kind == "batch":
                    raise Unsupported("slot of batch-mode device")
                return self.read("ls." + obj.owner.kind, obj.owner.ident, obj.index, stv)
            return SlotAcc(obj, stv)
        if isinstance(obj, SlotAcc):
            if attr in bm:
                b = obj.slot.owner
                if b.name is None:
                    return self.read("lbs", b.prefab, obj.slot.index, obj.st, self._batchmode(attr))
                return self.read("lbns", b.prefab, b.name, obj.slot.index, obj.st, self._batchmode(attr))
            raise Unsupported("batch slot accessor needs a batch mode")
        raise Unsupported(f"attribute {attr} on {type(obj).__name__}")

    def prop(self, cls, attr):
        """descriptor of attribute ``attr`` on structure class ``cls`` (None = generic device)."""
        if cls is None:
            if attr.startswith("slot") and attr[4:].isdigit():
                raise Unsupported("slot on generic device")
            return ("logic", attr)
        d = tables.class_prop(cls, attr)
        if d is None:
            if attr in ("PrefabHash", "ReferenceId", "NameHash"):
                return ("logic", attr)
            raise Unsupported(f"{cls} has no attribute {attr}")
        return d

    def _single_of(self, plural_cls):
        if plural_cls is None:
            return None
        d = tables.class_prop(plural_cls, "Average")
        if d and d[0] == "batchmode":
            return d[2]
        return None

    def batch_load(self, prefab, name, lt, mode):
        if name is None:
            return self.read("lb", prefab, lt, mode)
        return self.read("lbn", prefab, name, lt, mode)

    def store_attr(self, obj, attr, v, node):
        if isinstance(obj, Dev):
            if obj.kind == "batch":
                d = self.prop(obj.cls, attr)
                if d[0] != "logic":
                    raise Unsupported("store attr on batch device")
                prefab, name, _mode = obj.batch
                lt = self._lt(d[1], node)
                if name is None:
                    self.effect("sb", prefab, lt, v)
                else:
                    self.effect("sbn", prefab, name, lt, v)
                return
            d = self.prop(obj.cls, attr)
            if d[0] != "logic":
                raise Unsupported(f"store to {attr}")
            self.effect("s." + obj.kind, obj.ident, self._lt(d[1], node), v)
            return
        if isinstance(obj, Batch):
            d = self.prop(obj.cls, attr)
            if d[0] != "logic":
                raise Unsupported(f"store to {attr}")
            lt = self._lt(d[1], node)
            if obj.name is None:
                self.effect("sb", obj.prefab, lt, v)
            else:
                self.effect("sbn", obj.prefab, obj.name, lt, v)
            return
        if isinstance(obj, Slot):
            st = self.enum_tbl["LogicSlotType"]
            if attr not in st:
                raise Unsupported(f"slot logic type {attr}")
            stv = float(st[attr])
            if isinstance(obj.owner, Dev):
                self.effect("ss." + obj.owner.kind, obj.owner.ident, obj.index, stv, v)
            else:
                b = obj.owner
                if b.name is not None:
                    # IC10 has no name-filtered batch slot store; the source means "only the devices of
                    # that name", which an unfiltered sbs does not do (recorded finding)
                    self.effect("sbns", b.prefab, b.name, obj.index, stv, v)
                    return
                self.effect("sbs", b.prefab, obj.index, stv, v)
            return
        raise Unsupported(f"attribute store on {type(obj).__name__}")

    # -- own / foreign stacks --------------------------------------------------------------------
    def stack_load(self, so: StackObj, addr):
        d = so.dev
        if d.kind == "pin" and d.ident == 6.0:
            return self.core.mem.read(addr)
        return self.read("get." + d.kind, d.ident, addr)

    def stack_store(self, so: StackObj, addr, v):
        d = so.dev
        if d.kind == "pin" and d.ident == 6.0:
            self.core.mem.write(addr, v)
        else:
            self.effect("put." + d.kind, d.ident, addr, v)

    # -- calls -----------------------------------------------------------------------------------
    def ex_Call(self, e, fr):
        f = self.eval(e.func, fr)
        if isinstance(f, Func):
            return self.call_user(f, e, fr)
        if isinstance(f, StructCls):
            return self.make_device(f.name, e, fr)
        if isinstance(f, tuple) and f[0] == "math":
            args = [self.num(self.eval(a, fr), e) for a in e.args]
            return sym.op(f[1], *args)
        if isinstance(f, tuple) and f[0] == "builtin":
            return self.call_builtin(f[1], e, fr)
        if isinstance(f, tuple) and f[0] == "intrinsic":
            return self.call_intrinsic(f[1], e, fr)
        raise Unsupported(f"call of {type(f).__name__}")

    def call_user(self, f: Func, e, fr):
        if e.keywords and not f.is_constexpr:
            raise Unsupported("keyword arguments")
        if f.is_constexpr:
            return self.call_constexpr(f, e, fr)
        params = f.node.args
        if params.vararg or params.kwarg or params.kwonlyargs or params.defaults:
            raise Unsupported("parameter kinds")
        args = [self.eval(a, fr) for a in e.args]
        if len(args) != len(params.args):
            raise Unsupported("arity mismatch")
        for a in args:
            if not (is_conc(a) or hasattr(a, "sort")):
                raise Unsupported("non-numeric function argument")
        nf = Frame(f.module, f)
        nf.local_names = _assigned_names(f.node) - {f.node.name}
        for n in ast.walk(f.node):
            if isinstance(n, ast.Global):
                nf.global_names.update(n.names)
        for p, a in zip(params.args, args):
            nf.locals[p.arg] = a
        self.call_depth += 1
        if self.call_depth > 20:
            raise Unsupported("recursion")
        try:
            self.exec_block(f.node.body, nf)
            r = None
        except _Return as ret:
            r = ret.v
        finally:
            self.call_depth -= 1
        return r

    def _constexpr_ns(self, mod, _depth=0):
        """Namespace in which the module's decorated functions are ordinary Python functions."""
        import enum as _enum
        import math as _math
        import types as _types

        ns: dict = {"HASH": hash_signed, "STR": str_pack, "constexpr": (lambda g: g)}
        for ename, members in self.enum_tbl.items():
            ns[ename] = _enum.IntEnum(ename, members)
        ns.update(CONSTANTS)
        ns.update(tables.module_constants())
        for mf in MATH_FUNCS:
            ns[mf] = getattr(_math, mf)
        if _depth == 0:
            # library modules are visible under their import names
            for alias, m in self.modules.items():
                if alias and m is not mod:
                    sub = self._constexpr_ns(m, 1)
                    ns[alias] = _types.SimpleNamespace(**{k: v for k, v in sub.items() if callable(v)})
        for st in mod.tree.body:
            if isinstance(st, ast.FunctionDef) and any(
                isinstance(d, ast.Name) and d.id == "constexpr" for d in st.decorator_list
            ):
                code = compile(ast.Module(body=[st], type_ignores=[]), "<constexpr>", "exec")
                exec(code, ns)
        return ns

    def call_constexpr(self, f: Func, e, fr):
        """Ordinary Python evaluation of the decorated function (C12)."""
        ns = self._constexpr_ns(f.module)

        def cval(a):
            v = self.eval(a, fr)
            if is_conc(v):
                return int(v) if v == math.floor(v) and abs(v) < 2**62 else v
            if isinstance(v, str) or v is None:
                return v
            raise Unsupported("non-constant constexpr argument")

        args = [cval(a) for a in e.args]
        kw = {k.arg: cval(k.value) for k in e.keywords}
        try:
            r = ns[f.node.name](*args, **kw)
        except Exception as ex:
            raise Unsupported(f"constexpr function raised {type(ex).__name__}: {ex}")
        if isinstance(r, bool):
            return 1.0 if r else 0.0
        if isinstance(r, (int, float)):
            return float(r)
        if isinstance(r, (list, tuple)):
            return [float(x) for x in r]
        raise Unsupported(f"constexpr result of type {type(r).__name__}")

    def _kwargs(self, e, fr):
        return {k.arg: self.eval(k.value, fr) for k in e.keywords}

    def make_device(self, cls, e, fr):
        kw = self._kwargs(e, fr)
        args = [self.eval(a, fr) for a in e.args]
        dev = args[0] if args else kw.get("device_id")
        ref = args[1] if len(args) > 1 else kw.get("ref_id")
        if isinstance(dev, Dev):
            return Dev(dev.kind, dev.ident, cls)
        if dev is None and ref is not None:
            return Dev("ref", self.num(ref, e), cls)
        if dev is not None and not isinstance(dev, str):
            return Dev("ref", self.num(dev, e), cls)
        raise Unsupported("device constructor arguments")

    def call_builtin(self, name, e, fr):
        if name in ("HASH", "STR"):
            if len(e.args) != 1 or not isinstance(e.args[0], ast.Constant) or not isinstance(e.args[0].value, str):
                raise Unsupported(f"{name} of non-literal")
            s = e.args[0].value
            return float(hash_signed(s)) if name == "HASH" else float(str_pack(s))
        if name in ("Device", "_Device"):
            return self.make_device(None, e, fr)
        if name == "Stack":
            kw = self._kwargs(e, fr)
            args = [self.eval(a, fr) for a in e.args]
            dev = args[0] if args else kw.get("device_id")
            ref = args[1] if len(args) > 1 else kw.get("ref_id")
            if isinstance(dev, Dev):
                return StackObj(Dev(dev.kind, dev.ident))
            if dev is None and ref is not None:
                return StackObj(Dev("ref", self.num(ref, e)))
            if dev is None:
                return StackObj(Dev("pin", 6.0))
            if not isinstance(dev, str):
                return StackObj(Dev("ref", self.num(dev, e)))
            raise Unsupported("Stack arguments")
        if name in ("Devices", "_Devices"):
            args = [self.eval(a, fr) for a in e.args]

            def h(x):
                return float(hash_signed(x)) if isinstance(x, str) else self.num(x, e)

            if len(args) == 1:
                return Batch(h(args[0]), None, None)
            if len(args) == 2:
                return Batch(h(args[0]), h(args[1]), None)
            raise Unsupported("Devices arguments")
        raise Unsupported(f"builtin {name}")

    def call_intrinsic(self, opn, e, fr):
        sig = ic10.SIG[opn]
        if any(k in sig for k in "TNAC"):
            raise Unsupported(f"intrinsic {opn} (control flow / names) in source")
        if e.keywords:
            raise Unsupported("intrinsic keywords")
        has_out = sig.startswith("R")
        kinds = sig[1:] if has_out else sig
        if len(e.args) != len(kinds):
            raise Unsupported(f"intrinsic {opn} arity")
        ops = []
        et = {"L": "LogicType", "S": "LogicSlotType", "B": "LogicBatchMethod", "M": "LogicReagentMode"}
        for k, a in zip(kinds, e.args):
            v = self.eval(a, fr)
            if k == "D":
                if isinstance(v, Dev) and v.kind in ("pin", "ref"):
                    ops.append(("pin", v.ident) if v.kind == "pin" else ("refnum", v.ident))
                else:
                    ops.append(("refnum", self.num(v, e)))
            elif k in et and isinstance(v, str):
                tbl = self.enum_tbl[et[k]]
                if v not in tbl:
                    raise Unsupported("enum name string")
                ops.append(("num", float(tbl[v])))
            else:
                if isinstance(v, str):
                    raise Unsupported("string operand passed as-is")
                ops.append(("num", self.num(v, e)))
        core = self.core
        if has_out:
            ops = [("reg", 0)] + ops
        n_before = len(core.trace)
        core._exec(opn, ops, None)
        if core.status == "hcf":
            raise EndOfProgram()
        if len(core.trace) > n_before and len(core.trace) >= self.max_effects:
            raise BoundHit("effects")
        if has_out:
            return core.regs[0]
        return None
