"""Calls the real compile_code of the current tree and captures, from the harness side (no hook in
the repository), the instruction list handed to the register allocator: virtual register names,
owner function of every instruction, and the alignment of instructions with the final text."""
from __future__ import annotations

import time
from dataclasses import dataclass, field

OPTION_NAMES = [
    "original_code_as_comment",
    "generated_comments",
    "inline_functions",
    "remove_labels",
    "append_version",
    "compact",
    "tail_call_optimization",
    "use_push_pop_functions",
]
SEMANTIC_OPTIONS = ["inline_functions", "remove_labels", "compact", "tail_call_optimization", "use_push_pop_functions"]


@dataclass
class Captured:
    result: dict
    options: dict
    wall_s: float = 0.0
    exc: str | None = None
    # per instruction object, in allocator order
    virt: list = field(default_factory=list)  # (op, out_virtual_name|None, [operand virtual strings])
    phys: list = field(default_factory=list)  # same after allocation
    owner: list = field(default_factory=list)  # function name ('' = main)
    returned_registers: list | None = None
    func_meta: dict = field(default_factory=dict)  # fname -> dict(nargs, has_ret, called, inlinable)
    # alignment with final text
    line_obj: list = field(default_factory=list)  # text line index -> instruction object index | None
    main_end: int | None = None  # first text line of a function region
    effective: dict = field(default_factory=dict)  # option values after in-source directives

    @property
    def ok(self):
        return "code" in self.result and "error" not in self.result

    @property
    def code(self):
        return self.result.get("code")

    @property
    def error(self):
        e = self.result.get("error")
        return e.get("description") if isinstance(e, dict) else e


def _opstr(x):
    try:
        return x.to_string()
    except Exception as e:  # noqa
        return f"<unprintable {type(x).__name__}>"


def _snapshot(code):
    snap = []
    for ins in code:
        out = None
        if ins.output is not None:
            out = getattr(ins.output, "code_expr", None)
            if not isinstance(out, str):
                out = repr(out)
        ops = []
        for inp in ins.inputs:
            v = getattr(inp, "value", inp)
            ce = getattr(v, "code_expr", None)
            if isinstance(ce, str):
                ops.append(ce)
            else:
                ops.append(_opstr(inp) if hasattr(inp, "to_string") else repr(inp))
        snap.append((ins.op, out, ops))
    return snap


_patched = False


def lift_child_timeout():
    """The 1 s limit of the constexpr child process is a timing matter (C10, not claimed); under CPU
    load it makes compilations fail at random.  The harness lifts it to 60 s for every check by
    wrapping subprocess.Popen.communicate in its own process (the repository is not changed)."""
    global _patched
    if _patched:
        return
    import subprocess

    real = subprocess.Popen.communicate

    def communicate(self, input=None, timeout=None):
        if timeout is not None and timeout <= 1:
            timeout = 60
        return real(self, input=input, timeout=timeout)

    subprocess.Popen.communicate = communicate
    _patched = True


def compile_capture(src, **opts) -> Captured:
    """src: str or {module: str}; opts: CompileOptions fields."""
    lift_child_timeout()
    from stationeers_pytrapic import generate_code as gc
    from stationeers_pytrapic.compile_pass import CompileOptions
    from stationeers_pytrapic.compiler import compile_code

    cap = Captured(result={}, options=dict(opts))
    real = gc.assign_registers
    box = {}

    def wrapper(data, code):
        box["data"] = data
        box["code"] = code
        box["virt"] = _snapshot(code)
        owner_of = {}
        for fname, fd in data.functions.items():
            for ins in fd.code:
                owner_of[id(ins)] = fname
        box["owner"] = [owner_of.get(id(ins), "?") for ins in code]
        r = real(data, code)
        box["phys"] = _snapshot(code)
        box["ret"] = list(r) if r is not None else None
        return r

    gc.assign_registers = wrapper
    t0 = time.time()
    try:
        o = CompileOptions(**opts)
        cap.result = compile_code(src if isinstance(src, str) else dict(src), o)
        cap.effective = {n: getattr(o, n, None) for n in OPTION_NAMES}
    except BaseException as e:  # compile_code must never raise (C10); recorded
        cap.exc = f"{type(e).__name__}: {e}"
        cap.result = {"error": {"description": "EXCEPTION " + cap.exc}}
    finally:
        gc.assign_registers = real
    cap.wall_s = time.time() - t0
    if "virt" in box and cap.ok:
        cap.virt = box["virt"]
        cap.phys = box.get("phys", [])
        cap.owner = box["owner"]
        cap.returned_registers = box.get("ret")
        data = box["data"]
        for fname, fd in data.functions.items():
            if fd.node is None:
                continue
            try:
                cap.func_meta[fname] = dict(
                    nargs=len(fd.node.args.args),
                    has_ret=bool(fd.has_return_value),
                    called=bool(fd.is_called),
                    is_constexpr=bool(fd.is_constexpr),
                )
            except Exception:
                pass
        _align(cap)
    return cap


def _align(cap: Captured):
    from .ic10 import strip_comment

    lines = cap.code.split("\n")
    objs = cap.phys
    j = 0
    line_obj = []
    ok = True
    for li, line in enumerate(lines):
        body = strip_comment(line).strip()
        if body == "":
            line_obj.append(None)
            continue
        is_label_line = body.endswith(":") and len(body.split()) == 1
        found = None
        while j < len(objs):
            op = objs[j][0]
            if op.endswith(":"):
                if is_label_line and op.strip() == body:
                    found = j
                    j += 1
                    break
                j += 1  # label removed from the text
                continue
            if is_label_line:
                ok = False
                break
            found = j
            j += 1
            break
        line_obj.append(found)
        if found is None:
            ok = False
    cap.line_obj = line_obj if ok else []
    if ok:
        cap.main_end = None
        for li, oi in enumerate(line_obj):
            if oi is not None and cap.owner[oi] != "":
                cap.main_end = li
                break


def all_option_vectors(names=SEMANTIC_OPTIONS):
    out = []
    for m in range(1 << len(names)):
        out.append({n: bool(m >> i & 1) for i, n in enumerate(names)})
    return out
