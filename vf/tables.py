"""Static extraction (stdlib ast, nothing imported or executed) of the repository's generated tables:
structure classes (prefab name, hash, slots, logic types), plural singletons, enums.

Used by the dialect interpreter (source side of E1) and by C16.  Regenerated from the current
tree on every run.
"""
from __future__ import annotations

import os

import ast
import functools
from pathlib import Path

REPO = Path(os.environ.get("VERIF_REPO", "/repo"))
PKG = REPO / "src" / "stationeers_pytrapic"


@functools.lru_cache(maxsize=None)
def enums() -> dict[str, dict[str, int]]:
    tree = ast.parse((PKG / "types_generated.py").read_text())
    out: dict[str, dict[str, int]] = {}
    for node in tree.body:
        if isinstance(node, ast.ClassDef) and any(
            (isinstance(b, ast.Name) and b.id in ("_IntEnum", "IntEnum")) for b in node.bases
        ):
            members = {}
            for st in node.body:
                if isinstance(st, ast.Assign) and len(st.targets) == 1 and isinstance(st.targets[0], ast.Name):
                    try:
                        members[st.targets[0].id] = ast.literal_eval(st.value)
                    except Exception:
                        pass
            out[node.name] = members
    return out


@functools.lru_cache(maxsize=None)
def module_constants() -> dict[str, int]:
    """Module-level integer constants of types_generated.py (e.g. Equals = 0)."""
    tree = ast.parse((PKG / "types_generated.py").read_text())
    out = {}
    for node in tree.body:
        if isinstance(node, ast.Assign) and len(node.targets) == 1 and isinstance(node.targets[0], ast.Name):
            try:
                v = ast.literal_eval(node.value)
            except Exception:
                continue
            if isinstance(v, (int, float)) and not isinstance(v, bool):
                out[node.targets[0].id] = v
    return out


def _classify_return(expr):
    """-> descriptor tuple for a property body's return expression."""
    if isinstance(expr, ast.Call) and isinstance(expr.func, ast.Name):
        fn = expr.func.id
        args = expr.args
        if fn in ("_DeviceLogicType", "_DevicesLogicType") and len(args) == 2 and isinstance(args[1], ast.Attribute):
            return ("logic", args[1].attr, fn)
        if fn in ("_DeviceSlotType", "_DevicesSlotType") and len(args) == 2 and isinstance(args[1], ast.Attribute):
            return ("slotlogic", args[1].attr, fn)
        if fn.startswith("_SlotType") and len(args) == 2 and isinstance(args[1], ast.Constant):
            return ("slot", args[1].value, fn)
        kw = {k.arg: k.value for k in expr.keywords}
        if "batch_mode" in kw and isinstance(kw["batch_mode"], ast.Attribute):
            return ("batchmode", kw["batch_mode"].attr, fn)
    if isinstance(expr, ast.Attribute) and isinstance(expr.value, ast.Name) and expr.value.id == "self":
        return ("alias", expr.attr)
    return ("other", ast.dump(expr)[:80])


@functools.lru_cache(maxsize=None)
def structures():
    """-> (classes, singletons).  classes[name] = dict(bases, prefab, hash, props, has_getitem)."""
    tree = ast.parse((PKG / "structures_generated.py").read_text())
    classes = {}
    singles = {}
    for node in tree.body:
        if isinstance(node, ast.ClassDef):
            info = {"bases": [b.id for b in node.bases if isinstance(b, ast.Name)], "prefab": None,
                    "hash": None, "props": {}, "has_getitem": False, "lineno": node.lineno}
            for st in node.body:
                if isinstance(st, ast.AnnAssign) and isinstance(st.target, ast.Name) and st.value is not None:
                    try:
                        v = ast.literal_eval(st.value)
                    except Exception:
                        continue
                    if st.target.id == "_prefab_name":
                        info["prefab"] = v
                    elif st.target.id == "_hash":
                        info["hash"] = v
                elif isinstance(st, ast.FunctionDef):
                    if st.name == "__getitem__":
                        info["has_getitem"] = True
                        continue
                    is_prop = any(isinstance(d, ast.Name) and d.id == "property" for d in st.decorator_list)
                    if not is_prop:
                        continue
                    ret = [s for s in st.body if isinstance(s, ast.Return)]
                    if ret:
                        info["props"][st.name] = _classify_return(ret[0].value)
            classes[node.name] = info
        elif isinstance(node, ast.AnnAssign) and isinstance(node.target, ast.Name) and isinstance(node.value, ast.Call):
            if isinstance(node.value.func, ast.Name):
                singles[node.target.id] = node.value.func.id
    return classes, singles


def class_prop(cls: str, name: str, _seen=None):
    """Resolve property ``name`` on class ``cls`` through the bases, following aliases."""
    classes, _ = structures()
    seen = _seen or set()
    stack = [cls]
    while stack:
        c = stack.pop(0)
        if c in seen or c not in classes:
            continue
        seen.add(c)
        info = classes[c]
        if name in info["props"]:
            d = info["props"][name]
            if d[0] == "alias":
                return class_prop(cls, d[1])
            return d
        stack.extend(info["bases"])
    return None


def all_props(cls: str) -> dict:
    classes, _ = structures()
    out = {}
    seen = set()
    stack = [cls]
    while stack:
        c = stack.pop(0)
        if c in seen or c not in classes:
            continue
        seen.add(c)
        for k, d in classes[c]["props"].items():
            out.setdefault(k, d)
        stack.extend(classes[c]["bases"])
    return out


def singular_structures() -> list[str]:
    classes, _ = structures()
    return [n for n, i in classes.items() if i["prefab"] and "_BaseStructure" in i["bases"]]
