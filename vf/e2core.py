"""E2 core: symbolic execution of the repository's real numeric kernels.

The source of a module (utils.py, types.py, ...) is read from the current tree, f-strings are rewritten
by an AST transformer into calls of a formatting dispatcher, and the module is executed by the host
interpreter in a fresh namespace whose builtins (float, int, abs, isinstance, len, str, bool, ord,
min, max, round) and ``math`` are shadowed by dispatchers.  Functions of the copy are then called with
proxy values (SFloat = z3 Float64, SInt = z3 Int, SBool) whose operators build z3 terms with Python's
semantics; every truth test of a symbolic condition goes through Ctx.decide (path exploration by
re-execution, one incremental solver).  Statements, scoping, closures, dictionaries, lambdas are
executed by Python itself.
"""
from __future__ import annotations

import os

import ast
import builtins
import importlib
import math
import sys
import types
from pathlib import Path

import z3

from . import sym

PKG_DIR = Path(os.environ.get("VERIF_REPO", "/repo")) / "src" / "stationeers_pytrapic"
F64 = z3.Float64()
RNE = z3.RNE()
RTZ = z3.RTZ()
BV64 = z3.BitVecSort(64)

_ctx: sym.Ctx | None = None
INT_CARRIER = "bv"  # carrier chosen by int(float): 'bv' (QF_BVFP) or 'int'


def set_int_carrier(c):
    global INT_CARRIER
    INT_CARRIER = c


def set_ctx(c):
    global _ctx
    _ctx = c


def ctx() -> sym.Ctx:
    assert _ctx is not None
    return _ctx


class ModelGap(sym.Unsupported):
    """An operation the numeric domain does not model: the obligation is inconclusive."""


def fpv(x: float):
    return z3.FPVal(x, F64)


# -------------------------------------------------------------------------------------------------
# proxies


class SBool:
    def __init__(self, t):
        self.t = t

    def __bool__(self):
        return ctx().decide(self.t)

    def __eq__(self, o):
        return SBool(self.t == _b(o))

    def __hash__(self):
        return id(self)

    def as_float_term(self):
        return z3.If(self.t, fpv(1.0), fpv(0.0))


def _b(o):
    if isinstance(o, SBool):
        return o.t
    if isinstance(o, bool):
        return z3.BoolVal(o)
    raise ModelGap(f"bool operand {type(o).__name__}")


class SInt:
    """Python int.  Two carriers: z3 Int (unbounded; used for length / threshold arithmetic) or a
    signed 64-bit vector (used together with floats so that queries stay in QF_BVFP; the obligation
    states the range assumption)."""

    def __init__(self, t):
        self.t = t
        self.bv = z3.is_bv(t)

    # -- helpers
    def _lift(self, o):
        if isinstance(o, SInt):
            if o.bv != self.bv:
                raise ModelGap("mixed int carriers")
            return o.t
        if isinstance(o, SBool):
            one, zero = (z3.BitVecVal(1, 64), z3.BitVecVal(0, 64)) if self.bv else (z3.IntVal(1), z3.IntVal(0))
            return z3.If(o.t, one, zero)
        if isinstance(o, (bool, int)):
            return z3.BitVecVal(int(o), 64) if self.bv else z3.IntVal(int(o))
        return None

    def _arith(self, o, name, f, rev=False):
        if isinstance(o, (SFloat, float)):
            a = to_sfloat(self)
            return getattr(to_sfloat(o), name)(a) if rev else getattr(a, name)(o)
        b = self._lift(o)
        if b is None:
            return NotImplemented
        if self.bv:
            note_assumption("integer arithmetic inside the signed 64-bit window")
        return SInt(f(b, self.t) if rev else f(self.t, b))

    def __add__(self, o):
        return self._arith(o, "__add__", lambda a, b: a + b)

    __radd__ = __add__

    def __sub__(self, o):
        return self._arith(o, "__sub__", lambda a, b: a - b)

    def __rsub__(self, o):
        return self._arith(o, "__sub__", lambda a, b: a - b, True)

    def __mul__(self, o):
        return self._arith(o, "__mul__", lambda a, b: a * b)

    __rmul__ = __mul__

    def __neg__(self):
        return SInt(-self.t)

    def __floordiv__(self, o):
        b = self._lift(o)
        if b is None:
            return NotImplemented
        if self.bv:
            raise ModelGap("// on 64-bit carrier")
        if ctx().decide(b == 0):
            raise ZeroDivisionError("integer division or modulo by zero")
        return SInt(_floordiv(self.t, b))

    def __mod__(self, o):
        b = self._lift(o)
        if b is None:
            return NotImplemented
        if self.bv:
            raise ModelGap("% on 64-bit carrier")
        if ctx().decide(b == 0):
            raise ZeroDivisionError("integer division or modulo by zero")
        return SInt(self.t - b * _floordiv(self.t, b))

    def __truediv__(self, o):
        return to_sfloat(self) / o

    def __rtruediv__(self, o):
        return to_sfloat(o) / to_sfloat(self)

    # -- bit operations
    def _bitop(self, o, f, rev=False):
        b = self._lift(o)
        if b is None:
            return NotImplemented
        if not self.bv:
            raise ModelGap("bit operation on unbounded int carrier")
        note_assumption("integer bit operations inside the signed 64-bit window")
        return SInt(f(b, self.t) if rev else f(self.t, b))

    def __xor__(self, o):
        return self._bitop(o, lambda a, b: a ^ b)

    __rxor__ = __xor__

    def __and__(self, o):
        return self._bitop(o, lambda a, b: a & b)

    __rand__ = __and__

    def __or__(self, o):
        return self._bitop(o, lambda a, b: a | b)

    __ror__ = __or__

    def __invert__(self):
        return SInt(~self.t if self.bv else -self.t - 1)

    def _shift(self, o, f, rev=False):
        b = self._lift(o)
        if b is None:
            return NotImplemented
        cnt = self.t if rev else b
        if ctx().decide(cnt < 0):
            raise ValueError("negative shift count")
        return self._bitop(o, f, rev)

    def __lshift__(self, o):
        return self._shift(o, lambda a, c: a << c)

    def __rshift__(self, o):
        return self._shift(o, lambda a, c: a >> c)  # arithmetic, like Python

    def __rlshift__(self, o):
        return self._shift(o, lambda a, c: a << c, True)

    def __rrshift__(self, o):
        return self._shift(o, lambda a, c: a >> c, True)

    # -- comparisons
    def _cmp(self, o, f, fpf, nan_result=False):
        if isinstance(o, (SFloat, float)):
            # int vs float: Python compares the mathematical values
            of = to_sfloat(o)
            if ctx().decide(z3.fpIsNaN(of.t)):
                return SBool(z3.BoolVal(nan_result))
            if self.bv:
                note_assumption("|int| < 2^53 in int/float comparisons (conversion exact)")
                return SBool(fpf(z3.fpSignedToFP(RNE, self.t, F64), of.t))
            return SBool(f(z3.ToReal(self.t), z3.fpToReal(of.t)))
        b = self._lift(o)
        if b is None:
            return NotImplemented
        return SBool(f(self.t, b))

    def __eq__(self, o):
        r = self._cmp(o, lambda a, b: a == b, z3.fpEQ)
        return SBool(z3.BoolVal(False)) if r is NotImplemented else r

    def __ne__(self, o):
        r = self._cmp(o, lambda a, b: a != b, lambda a, b: z3.Not(z3.fpEQ(a, b)), True)
        return SBool(z3.BoolVal(True)) if r is NotImplemented else r

    def __lt__(self, o):
        return self._cmp(o, lambda a, b: a < b, z3.fpLT)

    def __le__(self, o):
        return self._cmp(o, lambda a, b: a <= b, z3.fpLEQ)

    def __gt__(self, o):
        return self._cmp(o, lambda a, b: a > b, z3.fpGT)

    def __ge__(self, o):
        return self._cmp(o, lambda a, b: a >= b, z3.fpGEQ)

    def __hash__(self):
        return id(self)

    def __bool__(self):
        return ctx().decide(self.t != 0)

    def __index__(self):
        raise ModelGap("symbolic int used as index")

    def __format__(self, spec):
        raise ModelGap("symbolic int formatted outside the dispatcher")


def _eq(a, b):
    return a == b


def _ne(a, b):
    return a != b


def _floordiv(a, b):
    # python floor division on z3 Ints (z3's / on ints rounds so that the remainder is non-negative)
    q = a / b
    return z3.If(b > 0, q, z3.If(a % b == 0, q, q - 1))


class SFloat:
    def __init__(self, t):
        self.t = t

    @staticmethod
    def lift(o):
        if isinstance(o, SFloat):
            return o.t
        if isinstance(o, bool):
            return fpv(float(o))
        if isinstance(o, (int, float)):
            return fpv(float(o))
        if isinstance(o, SInt):
            return to_sfloat(o).t
        if isinstance(o, SBool):
            return o.as_float_term()
        return None

    def _bin(self, o, f, rev=False):
        b = SFloat.lift(o)
        if b is None:
            return NotImplemented
        return SFloat(f(b, self.t) if rev else f(self.t, b))

    def __add__(self, o):
        return self._bin(o, lambda a, b: z3.fpAdd(RNE, a, b))

    __radd__ = __add__

    def __sub__(self, o):
        return self._bin(o, lambda a, b: z3.fpSub(RNE, a, b))

    def __rsub__(self, o):
        return self._bin(o, lambda a, b: z3.fpSub(RNE, a, b), True)

    def __mul__(self, o):
        return self._bin(o, lambda a, b: z3.fpMul(RNE, a, b))

    __rmul__ = __mul__

    def _div(self, a, b):
        if ctx().decide(z3.fpIsZero(b)):
            raise ZeroDivisionError("float division by zero")
        return SFloat(z3.fpDiv(RNE, a, b))

    def __truediv__(self, o):
        b = SFloat.lift(o)
        if b is None:
            return NotImplemented
        return self._div(self.t, b)

    def __rtruediv__(self, o):
        b = SFloat.lift(o)
        if b is None:
            return NotImplemented
        return self._div(b, self.t)

    def _mod(self, a, b):
        """Python float %: fmod, then the result takes the sign of the divisor."""
        if ctx().decide(z3.fpIsZero(b)):
            raise ZeroDivisionError("float modulo")
        r = fmod_term(a, b)
        adj = z3.And(z3.Not(z3.fpIsZero(r)), z3.fpIsNegative(r) != z3.fpIsNegative(b))
        return SFloat(z3.If(adj, z3.fpAdd(RNE, r, b), r))

    def __mod__(self, o):
        b = SFloat.lift(o)
        if b is None:
            return NotImplemented
        return self._mod(self.t, b)

    def __rmod__(self, o):
        b = SFloat.lift(o)
        if b is None:
            return NotImplemented
        return self._mod(b, self.t)

    def _pow(self, a, b):
        """Python float **: ZeroDivisionError for 0 ** negative, complex for negative ** non-integral,
        OverflowError when the result overflows; otherwise the library pow (uninterpreted, shared
        with the IC10 oracle)."""
        c = ctx()
        if c.decide(z3.And(z3.fpIsZero(a), z3.fpIsNegative(b), z3.Not(z3.fpIsZero(b)))):
            raise ZeroDivisionError("0.0 cannot be raised to a negative power")
        nonint = z3.Not(z3.fpEQ(z3.fpRoundToIntegral(RTZ, b), b))
        if c.decide(z3.And(z3.fpLT(a, fpv(0.0)), nonint, z3.Not(z3.fpIsInf(b)), z3.Not(z3.fpIsNaN(b)))):
            return SComplex()
        r = uf_fp("pow", a, b)
        fin = z3.And(z3.Not(z3.fpIsInf(a)), z3.Not(z3.fpIsInf(b)))
        if c.decide(z3.And(fin, z3.fpIsInf(r))):
            raise OverflowError("(34, 'Numerical result out of range')")
        return SFloat(r)

    def __pow__(self, o):
        b = SFloat.lift(o)
        if b is None:
            return NotImplemented
        return self._pow(self.t, b)

    def __rpow__(self, o):
        b = SFloat.lift(o)
        if b is None:
            return NotImplemented
        return self._pow(b, self.t)

    def __neg__(self):
        return SFloat(z3.fpNeg(self.t))

    def __pos__(self):
        return self

    def __abs__(self):
        return SFloat(z3.fpAbs(self.t))

    def __invert__(self):
        raise TypeError("bad operand type for unary ~: 'float'")

    def _nobit(self, o):
        raise TypeError("unsupported operand type(s) for bit operation: 'float'")

    __xor__ = __rxor__ = __and__ = __rand__ = __or__ = __ror__ = __lshift__ = __rshift__ = __rlshift__ = __rrshift__ = _nobit

    def _cmp(self, o, f, nan_result=False):
        if isinstance(o, SInt):
            if ctx().decide(z3.fpIsNaN(self.t)):
                return SBool(z3.BoolVal(nan_result))
            if o.bv:
                note_assumption("|int| < 2^53 in int/float comparisons (conversion exact)")
                return SBool(f(self.t, z3.fpSignedToFP(RNE, o.t, F64), False))
            if ctx().decide(z3.fpIsInf(self.t)):
                raise ModelGap("inf compared with int")
            return SBool(f(z3.fpToReal(self.t), z3.ToReal(o.t), True))
        b = SFloat.lift(o)
        if b is None:
            return NotImplemented
        return SBool(f(self.t, b, False))

    def __eq__(self, o):
        r = self._cmp(o, lambda a, b, real: (a == b) if real else z3.fpEQ(a, b))
        return SBool(z3.BoolVal(False)) if r is NotImplemented else r

    def __ne__(self, o):
        r = self._cmp(o, lambda a, b, real: (a != b) if real else z3.Not(z3.fpEQ(a, b)), True)
        return SBool(z3.BoolVal(True)) if r is NotImplemented else r

    def __lt__(self, o):
        return self._cmp(o, lambda a, b, real: (a < b) if real else z3.fpLT(a, b))

    def __le__(self, o):
        return self._cmp(o, lambda a, b, real: (a <= b) if real else z3.fpLEQ(a, b))

    def __gt__(self, o):
        return self._cmp(o, lambda a, b, real: (a > b) if real else z3.fpGT(a, b))

    def __ge__(self, o):
        return self._cmp(o, lambda a, b, real: (a >= b) if real else z3.fpGEQ(a, b))

    def __hash__(self):
        return id(self)

    def __bool__(self):
        return ctx().decide(z3.Not(z3.fpIsZero(self.t)))

    def __format__(self, spec):
        # str.format(...) insists on a real str: return a marker that survives rstrip("0").rstrip(".")
        # the tail "0.0" shows afterwards which strips were applied: "0.0" none, "0." rstrip("0"),
        # "0" rstrip("0").rstrip(".")
        return "\x00FMT[" + spec + "]\x000.0"


class SComplex:
    """Marker: Python produced a complex number."""


class SStr:
    """Result of formatting a symbolic number: kept as a record, not as characters."""

    def __init__(self, kind, **kw):
        self.kind = kind
        self.info = kw
        self.post = []

    def rstrip(self, chars=None):
        self.post.append(("rstrip", chars))
        return self

    def __add__(self, o):
        self.post.append(("concat", o))
        return self

    def __radd__(self, o):
        self.post.append(("rconcat", o))
        return self


_assumptions: set[str] = set()


def note_assumption(s):
    _assumptions.add(s)


def pop_assumptions():
    global _assumptions
    a, _assumptions = sorted(_assumptions), set()
    return a


_fp_ufs = {}


def uf_fp(name, *args):
    f = _fp_ufs.get((name, len(args)))
    if f is None:
        f = z3.Function("m_" + name, *([F64] * (len(args) + 1)))
        _fp_ufs[(name, len(args))] = f
    return f(*args)


def fmod_term(a, b):
    """C fmod(a, b): z3 has only the IEEE remainder; fmod is an uninterpreted function constrained by
    its defining properties (added to the solver on first use per argument pair):
    |r| < |b|, r has the sign of a (or is zero), and a - r is an integral multiple of b is NOT
    encoded (not needed: folder and oracle apply the same fmod to the same arguments)."""
    r = uf_fp("fmod", a, b)
    c = ctx()
    fin = z3.And(z3.Not(z3.fpIsNaN(a)), z3.Not(z3.fpIsNaN(b)), z3.Not(z3.fpIsInf(a)), z3.Not(z3.fpIsZero(b)))
    ax = z3.Implies(
        fin,
        z3.And(
            z3.Not(z3.fpIsNaN(r)),
            z3.Or(z3.fpIsInf(b), z3.fpLT(z3.fpAbs(r), z3.fpAbs(b))),
            z3.Or(z3.fpIsZero(r), z3.fpIsNegative(r) == z3.fpIsNegative(a)),
            z3.fpLEQ(z3.fpAbs(r), z3.fpAbs(a)),
        ),
    )
    c.solver.add(ax)
    return r


def to_sfloat(o):
    if isinstance(o, SFloat):
        return o
    if isinstance(o, SInt):
        note_assumption("|int| < 2^53 so that int -> float is exact")
        if o.bv:
            return SFloat(z3.fpSignedToFP(RNE, o.t, F64))
        return SFloat(z3.fpToFP(RNE, z3.ToReal(o.t), F64))
    if isinstance(o, SBool):
        return SFloat(o.as_float_term())
    if isinstance(o, (bool, int, float)):
        return SFloat(fpv(float(o)))
    raise ModelGap(f"float() of {type(o).__name__}")


# -------------------------------------------------------------------------------------------------
# shadow builtins


class vf_float(float):
    """Shadow of ``float``: callable like the builtin (proxies stay symbolic) and usable as a base
    class by the module under analysis."""

    def __new__(cls, x=0.0):
        if isinstance(x, (SFloat, SInt, SBool)):
            return to_sfloat(x)
        if cls is vf_float:
            return builtins.float(x)
        return builtins.float.__new__(cls, x)


class vf_int(int):
    def __new__(cls, x=0, *a):
        if isinstance(x, SInt):
            return x
        if isinstance(x, SBool):
            return SInt(z3.If(x.t, z3.BitVecVal(1, 64), z3.BitVecVal(0, 64)) if INT_CARRIER == "bv" else z3.If(x.t, z3.IntVal(1), z3.IntVal(0)))
        if isinstance(x, SFloat):
            c = ctx()
            if c.decide(z3.fpIsNaN(x.t)):
                raise ValueError("cannot convert float NaN to integer")
            if c.decide(z3.fpIsInf(x.t)):
                raise OverflowError("cannot convert float infinity to integer")
            if INT_CARRIER == "bv":
                note_assumption("|float| < 2^63 in int(float)")
                return SInt(z3.fpToSBV(RTZ, x.t, BV64))
            return SInt(z3.ToInt(z3.fpToReal(z3.fpRoundToIntegral(RTZ, x.t))))
        if cls is vf_int:
            return builtins.int(x, *a)
        return builtins.int.__new__(cls, x, *a)


def vf_bool(x=False):
    if isinstance(x, (SFloat, SInt, SBool)):
        return builtins.bool(x)  # decides
    return builtins.bool(x)


def vf_abs(x):
    if isinstance(x, SFloat):
        return abs(x)
    if isinstance(x, SInt):
        return SInt(z3.If(x.t >= 0, x.t, -x.t))
    return builtins.abs(x)


def vf_isinstance(obj, cls):
    def one(c):
        if c is vf_str:
            c = str
        if c is vf_float:
            c = float
        elif builtins.isinstance(c, type) and builtins.issubclass(c, vf_int) and c.__name__.startswith(("vf_int", "_vf_int")):
            c = int
        if isinstance(obj, SFloat):
            return c is float
        if isinstance(obj, SInt):
            return c is int
        if isinstance(obj, SBool):
            return c in (bool, int)
        if isinstance(obj, SComplex):
            return c is complex
        if type(obj).__name__ in ("SymStr", "_JsonText"):
            return c is str
        return builtins.isinstance(obj, c)

    if builtins.isinstance(cls, tuple):
        return any(one(c) for c in cls)
    return one(cls)


vf_str_type = str


def vf_str(x=""):
    if isinstance(x, SInt):
        return SStr("int_str", value=x)
    if isinstance(x, (SFloat, SBool)):
        return SStr("repr", value=x)
    return builtins.str(x)


def digits10(t):
    """number of characters of str(int) for a 64-bit carrier value (sign included)"""
    neg = t < 0
    a = z3.If(neg, -t, t)
    n = z3.BitVecVal(1, 64) if z3.is_bv(t) else z3.IntVal(1)
    one = z3.BitVecVal(1, 64) if z3.is_bv(t) else z3.IntVal(1)
    for k in range(1, 19):
        n = n + z3.If(a >= 10**k, one, one - one)
    return z3.If(neg, n + one, n)


def vf_len(x):
    if isinstance(x, SStr):
        if x.kind == "int_str" and not x.post:
            return SInt(digits10(x.info["value"].t))
        raise ModelGap("len of symbolic string")
    if hasattr(x, "__sym_len__"):
        return x.__sym_len__()
    return builtins.len(x)


class _Math:
    def __getattr__(self, name):
        real = getattr(math, name)
        if not callable(real):
            return real

        def f(*args):
            if any(isinstance(a, (SFloat, SInt)) for a in args):
                if name == "log10":
                    return log10_contract(to_sfloat(args[0]))
                return SFloat(uf_fp(name, *[to_sfloat(a).t for a in args]))
            return real(*args)

        return f


_log10_hook = None


def log10_contract(x):
    if _log10_hook is None:
        raise ModelGap("math.log10 of a symbolic value without a contract")
    return _log10_hook(x)


def set_log10_hook(h):
    global _log10_hook
    _log10_hook = h


def vf_fstring(parts):
    """parts: list of str | (value, conversion, spec)"""
    out = None
    pieces = []
    for p in parts:
        if builtins.isinstance(p, tuple):
            v, conv, spec = p
            if isinstance(v, (SFloat, SInt, SBool)):
                pieces.append(SStr("format", value=v, spec=spec))
            elif isinstance(v, SStr):
                pieces.append(v)
            elif type(v).__name__ == "SymStr":
                pieces.append(v)
            else:
                if conv == ord("r"):
                    v = repr(v)
                elif conv == ord("s"):
                    v = builtins.str(v)
                pieces.append(builtins.format(v, spec))
        else:
            pieces.append(p)
    if all(builtins.isinstance(p, str) for p in pieces):
        return "".join(pieces)
    if any(type(p).__name__ == "SymStr" for p in pieces):
        acc = None
        for p in pieces:
            acc = p if acc is None else acc + p
        return acc
    syms = [p for p in pieces if isinstance(p, SStr)]
    if len(syms) == 1:
        s = syms[0]
        i = pieces.index(s)
        s.info["prefix"] = "".join(pieces[:i])
        s.info["suffix"] = "".join(pieces[i + 1:])
        return s
    raise ModelGap("f-string with several symbolic parts")


def vf_in(a, container):
    """``a in container`` for a symbolic number and a set/list/tuple of concrete numbers: one decision
    on the disjunction (no fork per member)."""
    if isinstance(a, (SInt, SFloat)) and builtins.isinstance(container, (set, frozenset, list, tuple)):
        terms = []
        for m in container:
            if builtins.isinstance(m, (int, float)) and not builtins.isinstance(m, bool):
                r = (a == m)
                if isinstance(r, SBool):
                    terms.append(r.t)
        if not terms:
            return False
        return ctx().decide(z3.Or(*terms))
    if type(a).__name__ == "SymStr" and builtins.isinstance(container, (dict, set, frozenset, list, tuple)):
        if a.concrete():
            return a.to_str() in container
        for m in container:
            if builtins.isinstance(m, str) and a.equals(m):
                return True
        return False
    return a in container


class VJoined:
    """result of sep.join(parts) when some part is abstract"""

    def __init__(self, sep, parts):
        self.sep = sep
        self.lines = list(parts)

    def splitlines(self):
        return list(self.lines)

    def __sym_len__(self):
        tot = None
        for l in self.lines:
            n = l.__sym_len__() if hasattr(l, "__sym_len__") else builtins.len(l)
            tot = n if tot is None else tot + n
        seps = builtins.len(self.sep) * max(builtins.len(self.lines) - 1, 0)
        if tot is None:
            return 0
        return tot + seps


def vf_join(sep, parts):
    parts = list(parts)
    if all(builtins.isinstance(p, str) for p in parts) and builtins.isinstance(sep, str):
        return sep.join(parts)
    if type(sep).__name__ == "SymStr" or any(type(p).__name__ == "SymStr" for p in parts):
        from . import e3

        return e3.SymStr.of(sep).join(parts)
    return VJoined(sep, parts)


class _FStringRewriter(ast.NodeTransformer):
    def visit_Call(self, node):
        self.generic_visit(node)
        f = node.func
        if isinstance(f, ast.Attribute) and f.attr == "join" and isinstance(f.value, ast.Constant) and isinstance(f.value.value, str) and len(node.args) == 1 and not node.keywords:
            return ast.copy_location(ast.Call(ast.Name("__vf_join__", ast.Load()), [f.value, node.args[0]], []), node)
        return node

    def visit_Compare(self, node):
        self.generic_visit(node)
        if len(node.ops) == 1 and isinstance(node.ops[0], (ast.In, ast.NotIn)):
            call = ast.Call(ast.Name("__vf_in__", ast.Load()), [node.left, node.comparators[0]], [])
            if isinstance(node.ops[0], ast.NotIn):
                call = ast.UnaryOp(ast.Not(), call)
            return ast.copy_location(call, node)
        return node

    def visit_JoinedStr(self, node):
        self.generic_visit(node)
        elts = []
        for v in node.values:
            if isinstance(v, ast.Constant):
                elts.append(v)
            else:
                spec = v.format_spec if v.format_spec is not None else ast.Constant("")
                elts.append(ast.Tuple([v.value, ast.Constant(v.conversion), spec], ast.Load()))
        return ast.copy_location(
            ast.Call(ast.Name("__vf_fstring__", ast.Load()), [ast.List(elts, ast.Load())], []), node
        )


def load_instrumented(modname: str, extra_ns=None):
    """Execute a fresh, instrumented copy of stationeers_pytrapic.<modname> from the current tree."""
    path = PKG_DIR / (modname + ".py")
    src = path.read_text()
    tree = ast.parse(src, str(path))
    tree = _FStringRewriter().visit(tree)
    ast.fix_missing_locations(tree)
    code = compile(tree, str(path), "exec")
    mod = types.ModuleType("stationeers_pytrapic." + modname + "__vf")
    mod.__package__ = "stationeers_pytrapic"
    mod.__file__ = str(path)
    ns = mod.__dict__
    ns.update(
        float=vf_float, int=vf_int, abs=vf_abs, isinstance=vf_isinstance, str=vf_str, bool=vf_bool, len=vf_len,
        __vf_fstring__=vf_fstring, __vf_in__=vf_in, __vf_join__=vf_join,
    )
    if extra_ns:
        ns.update(extra_ns)
    sys.modules[mod.__name__] = mod  # dataclasses look their module up
    exec(code, ns)
    # ``import math`` inside the module rebinds the name: shadow afterwards
    if "math" in ns:
        ns["math"] = _Math()
    return mod


# -------------------------------------------------------------------------------------------------
# path exploration driver


def explore(fn, timeout_ms=20000, max_paths=256):
    """Run fn() on every feasible path.  fn returns a value or raises.  -> list of
    (pc list, outcome) where outcome = ('value', v) | ('raise', exc) | ('gap', msg), plus stats."""
    c = sym.Ctx(timeout_ms=timeout_ms, max_paths=max_paths)
    set_ctx(c)
    paths = []
    while c.work and len(paths) < max_paths:
        prefix = c.work.pop()
        c.begin_run(prefix)
        try:
            try:
                v = fn()
                out = ("value", v)
            except sym.PathAbort:
                out = None
            except sym.TaskTimeout:
                raise
            except ModelGap as e:
                out = ("gap", str(e))
            except sym.Unsupported as e:
                out = ("gap", str(e))
            except Exception as e:  # the real code raised under this path condition
                out = ("raise", e)
            if out is not None:
                paths.append((list(c.pc), out, list(c.solver.assertions())))
        finally:
            c.end_run()
    return paths, c
